//! C08 runner.  Parent: builds the case list (well-formed frames from the extracted ENCODER via
//! `ocaml/c08/driver gen`, 9 random truncation points per frame, mutations at random offsets and of
//! encoder fields, compressed variants, typed cells with inflated counts, custom-type strings, two-frame
//! streams for the chunked reader, random bytes, the reproducers of the repaired crash inputs) and has the REAL decoders run on them in
//! CHILD processes (`--child`), each decode on a 2 MiB-stack thread under catch_unwind, the child
//! under `ulimit -v` so that an out-of-proportion allocation aborts only the child.  A child that
//! dies or does not answer within the per-input wall-clock limit is stopped; the input it was working on
//! is re-run alone in a fresh child (`abort` after repeated deaths, `timeout` only when that child burns the
//! limit in CPU time, `notrun env-...` for everything the environment did) and the batch goes on behind it.
//!
//! line: `<KIND> <features> <mode> <framehex> | [dc=<hex>|dc=!] <status…> [tv=… tb=…] [q2=… sch=<chunk sizes>]
//!        m=<max single alloc> t=<total alloc> s=<small-stack run: ok|differ|overflow|-> h=<stack high-water mark|->`
use bytes::Bytes;
use scylla_cql::frame::frame_errors::{FrameBodyExtensionsParseError, FrameHeaderParseError};
use scylla_cql::frame::protocol_features::ProtocolFeatures;
use scylla_cql::frame::request::query::PagingStateResponse;
use scylla_cql::frame::response::error::{DbError, OperationType, WriteType};
use scylla_cql::frame::response::event::{
    ClientRoutesChangeEvent, Event, EventV2, SchemaChangeEvent, SchemaChangeType, StatusChangeEvent,
    TopologyChangeEvent,
};
use scylla_cql::frame::response::result::{
    CollectionType, ColumnSpec, ColumnType, NativeType, ResultWithDeserializedMetadata,
};
use scylla_cql::frame::response::{
    Response, ResponseV2, ResponseWithDeserializedMetadata as RM, ResponseWithDeserializedMetadataV2 as RM2,
};
use scylla_cql::frame::{Compression, parse_response_body_extensions, read_response_frame};
use scylla_cql_core::deserialize::row::ColumnIterator;
use scylla_cql_core::value::Row;
use std::alloc::{GlobalAlloc, Layout, System};
use std::cell::Cell;
use std::fmt::Write as _;
use std::io::{BufRead, Write};
use vh::*;

// ------------------------------------------------------------------ counting allocator
struct Counting;
thread_local! {
    static TV: Cell<String> = const { Cell::new(String::new()) };
    static MAXREQ: Cell<usize> = const { Cell::new(0) };
    static TOTAL: Cell<usize> = const { Cell::new(0) };
}
fn note(sz: usize) {
    let _ = MAXREQ.try_with(|m| if sz > m.get() { m.set(sz) });
    let _ = TOTAL.try_with(|t| t.set(t.get().wrapping_add(sz)));
}
unsafe impl GlobalAlloc for Counting {
    unsafe fn alloc(&self, l: Layout) -> *mut u8 {
        note(l.size());
        unsafe { System.alloc(l) }
    }
    unsafe fn alloc_zeroed(&self, l: Layout) -> *mut u8 {
        note(l.size());
        unsafe { System.alloc_zeroed(l) }
    }
    unsafe fn dealloc(&self, p: *mut u8, l: Layout) {
        unsafe { System.dealloc(p, l) }
    }
    unsafe fn realloc(&self, p: *mut u8, l: Layout, new: usize) -> *mut u8 {
        note(new);
        unsafe { System.realloc(p, l, new) }
    }
}
#[global_allocator]
static A: Counting = Counting;

// ------------------------------------------------------------------ canonical rendering
fn hx(b: &[u8]) -> String {
    let mut s = String::with_capacity(b.len() * 2 + 1);
    s.push('x');
    for x in b {
        write!(s, "{:02x}", x).unwrap();
    }
    s
}
fn lst<T>(l: impl IntoIterator<Item = T>, f: impl Fn(T) -> String) -> String {
    format!("[{}]", l.into_iter().map(f).collect::<Vec<_>>().join(","))
}
fn opt<T>(o: Option<T>, f: impl Fn(T) -> String) -> String {
    match o {
        None => "N".into(),
        Some(v) => format!("S({})", f(v)),
    }
}
fn b01(b: bool) -> &'static str {
    if b { "1" } else { "0" }
}
fn native_name(n: &NativeType) -> String {
    format!("{:?}", n)
}
fn r_type(t: &ColumnType) -> String {
    match t {
        ColumnType::Native(n) => native_name(n),
        ColumnType::Collection { frozen, typ } => match typ {
            CollectionType::List(e) => format!("List({},{})", b01(*frozen), r_type(e)),
            CollectionType::Set(e) => format!("Set({},{})", b01(*frozen), r_type(e)),
            CollectionType::Map(k, v) => format!("Map({},{},{})", b01(*frozen), r_type(k), r_type(v)),
            _ => "UnknownCollection".into(),
        },
        ColumnType::Vector { typ, dimensions } => format!("Vec({},{})", r_type(typ), dimensions),
        ColumnType::UserDefinedType { frozen, definition } => format!(
            "Udt({},{},{},{})",
            b01(*frozen),
            hx(definition.keyspace.as_bytes()),
            hx(definition.name.as_bytes()),
            lst(definition.field_types.iter(), |(n, t)| format!("({},{})", hx(n.as_bytes()), r_type(t)))
        ),
        ColumnType::Tuple(es) => format!("Tup({})", lst(es.iter(), r_type)),
        _ => "UnknownType".into(),
    }
}
fn r_col(c: &ColumnSpec) -> String {
    format!(
        "({},{},{},{})",
        hx(c.table_spec().ks_name().as_bytes()),
        hx(c.table_spec().table_name().as_bytes()),
        hx(c.name().as_bytes()),
        r_type(c.typ())
    )
}
fn r_wt(w: &WriteType) -> String {
    match w {
        WriteType::Other(s) => format!("Other({})", hx(s.as_bytes())),
        w => format!("{:?}", w),
    }
}
fn r_db(e: &DbError) -> String {
    match e {
        DbError::Unavailable { consistency, required, alive } => {
            format!("Unavailable({},{},{})", *consistency as u16, required, alive)
        }
        DbError::WriteTimeout { consistency, received, required, write_type } => {
            format!("WriteTimeout({},{},{},{})", *consistency as u16, received, required, r_wt(write_type))
        }
        DbError::ReadTimeout { consistency, received, required, data_present } => {
            format!("ReadTimeout({},{},{},{})", *consistency as u16, received, required, b01(*data_present))
        }
        DbError::ReadFailure { consistency, received, required, numfailures, data_present } => format!(
            "ReadFailure({},{},{},{},{})",
            *consistency as u16, received, required, numfailures, b01(*data_present)
        ),
        DbError::FunctionFailure { keyspace, function, arg_types } => format!(
            "FunctionFailure({},{},{})",
            hx(keyspace.as_bytes()),
            hx(function.as_bytes()),
            lst(arg_types.iter(), |s| hx(s.as_bytes()))
        ),
        DbError::WriteFailure { consistency, received, required, numfailures, write_type } => format!(
            "WriteFailure({},{},{},{},{})",
            *consistency as u16, received, required, numfailures, r_wt(write_type)
        ),
        DbError::AlreadyExists { keyspace, table } => {
            format!("AlreadyExists({},{})", hx(keyspace.as_bytes()), hx(table.as_bytes()))
        }
        DbError::Unprepared { statement_id } => format!("Unprepared({})", hx(statement_id)),
        DbError::RateLimitReached { op_type, rejected_by_coordinator } => {
            let op = match op_type {
                OperationType::Read => 0,
                OperationType::Write => 1,
                OperationType::Other(x) => *x,
            };
            format!("RateLimitReached({},{})", op, b01(*rejected_by_coordinator))
        }
        DbError::Other(c) => format!("Other({})", c),
        e => format!("{:?}", e), // unit variants: ServerError, SyntaxError, ...
    }
}
fn r_ct(c: &SchemaChangeType) -> String {
    format!("{:?}", c)
}
fn r_sc(s: &SchemaChangeEvent) -> String {
    match s {
        SchemaChangeEvent::KeyspaceChange { change_type, keyspace_name } => {
            format!("Keyspace({},{})", r_ct(change_type), hx(keyspace_name.as_bytes()))
        }
        SchemaChangeEvent::TableChange { change_type, keyspace_name, object_name } => {
            format!("Table({},{},{})", r_ct(change_type), hx(keyspace_name.as_bytes()), hx(object_name.as_bytes()))
        }
        SchemaChangeEvent::TypeChange { change_type, keyspace_name, type_name } => {
            format!("Type({},{},{})", r_ct(change_type), hx(keyspace_name.as_bytes()), hx(type_name.as_bytes()))
        }
        SchemaChangeEvent::FunctionChange { change_type, keyspace_name, function_name, arguments } => format!(
            "Function({},{},{},{})",
            r_ct(change_type),
            hx(keyspace_name.as_bytes()),
            hx(function_name.as_bytes()),
            lst(arguments.iter(), |s| hx(s.as_bytes()))
        ),
        SchemaChangeEvent::AggregateChange { change_type, keyspace_name, aggregate_name, arguments } => format!(
            "Aggregate({},{},{},{})",
            r_ct(change_type),
            hx(keyspace_name.as_bytes()),
            hx(aggregate_name.as_bytes()),
            lst(arguments.iter(), |s| hx(s.as_bytes()))
        ),
    }
}
fn r_addr(a: &std::net::SocketAddr) -> String {
    let ip = match a.ip() {
        std::net::IpAddr::V4(v) => v.octets().to_vec(),
        std::net::IpAddr::V6(v) => v.octets().to_vec(),
    };
    format!("({},{})", hx(&ip), a.port())
}
fn r_topo(t: &TopologyChangeEvent) -> String {
    match t {
        TopologyChangeEvent::NewNode(a) => format!("Topology(1,{})", r_addr(a)),
        TopologyChangeEvent::RemovedNode(a) => format!("Topology(0,{})", r_addr(a)),
    }
}
fn r_status(t: &StatusChangeEvent) -> String {
    match t {
        StatusChangeEvent::Up(a) => format!("Status(1,{})", r_addr(a)),
        StatusChangeEvent::Down(a) => format!("Status(0,{})", r_addr(a)),
    }
}
fn r_ev(e: &Event) -> String {
    match e {
        Event::TopologyChange(t) => r_topo(t),
        Event::StatusChange(t) => r_status(t),
        Event::SchemaChange(s) => format!("Schema({})", r_sc(s)),
    }
}
fn r_ev2(e: &EventV2) -> String {
    match e {
        EventV2::TopologyChange(t) => r_topo(t),
        EventV2::StatusChange(t) => r_status(t),
        EventV2::SchemaChange(s) => format!("Schema({})", r_sc(s)),
        EventV2::ClientRoutesChange(ClientRoutesChangeEvent::UpdateNodes { connection_ids, host_ids }) => format!(
            "ClientRoutes({},{})",
            lst(connection_ids.iter(), |s| hx(s.as_bytes())),
            lst(host_ids.iter(), |u| hx(u.as_bytes()))
        ),
        _ => "UnknownEvent".into(),
    }
}
/// Err(class) when forcing the rows fails
fn r_result(r: &ResultWithDeserializedMetadata) -> Result<String, String> {
    Ok(match r {
        ResultWithDeserializedMetadata::Void => "Void".into(),
        ResultWithDeserializedMetadata::SetKeyspace(k) => format!("SetKeyspace({})", hx(k.keyspace_name.as_bytes())),
        ResultWithDeserializedMetadata::SchemaChange(s) => format!("SchemaChange({})", r_sc(&s.event)),
        ResultWithDeserializedMetadata::Prepared(p) => {
            let mut pk: Vec<(u16, u16)> = p.prepared_metadata.pk_indexes.iter().map(|x| (x.index, x.sequence)).collect();
            pk.sort();
            format!(
                "Prepared({},{},{},{},{},{},{},{})",
                hx(&p.id),
                opt(p.result_metadata.id(), hx),
                p.prepared_metadata.flags,
                p.prepared_metadata.col_count,
                lst(pk.iter(), |(i, s)| format!("({},{})", i, s)),
                lst(p.prepared_metadata.col_specs.iter(), r_col),
                p.result_metadata.col_count(),
                lst(p.result_metadata.col_specs().iter(), r_col)
            )
        }
        ResultWithDeserializedMetadata::Rows((rows, paging)) => {
            let ps = match paging {
                PagingStateResponse::HasMorePages { state } => {
                    Some(state.as_bytes_slice().map(|a| a.to_vec()).unwrap_or_default())
                }
                PagingStateResponse::NoMorePages => None,
            };
            let md = rows.metadata();
            let mut out_rows: Vec<String> = Vec::new();
            if !md.col_specs().is_empty() {
                let it = rows.rows_iter::<ColumnIterator>().map_err(|e| classify(&format!("{:?}", e)))?;
                for row in it {
                    let row = row.map_err(|e| classify(&format!("{:?}", e)))?;
                    let mut cells = Vec::new();
                    for c in row {
                        let c = c.map_err(|e| classify(&format!("{:?}", e)))?;
                        cells.push(opt(c.slice, |s| hx(s.as_slice())));
                    }
                    out_rows.push(format!("[{}]", cells.join(",")));
                }
            }
            // typed deserialisation of the same rows: rows_iter::<Row>() until the first error
            if md.col_specs().is_empty() {
                // rows without columns carry no bytes: the iterator must yield `rows_count` empty rows
                // (walked up to a cap: the count is a wire integer up to 2^31 - 1)
                let mut z = 0usize;
                let mut tv = None;
                match rows.rows_iter::<Row>() {
                    Err(_) => tv = Some("typecheck".to_string()),
                    Ok(it) => {
                        for row in it.take(1_000_000) {
                            match row {
                                Ok(r) if r.columns.is_empty() => z += 1,
                                _ => {
                                    tv = Some(format!("zerr@{}", z));
                                    break;
                                }
                            }
                        }
                    }
                }
                TV.with(|t| t.set(tv.unwrap_or(format!("z{}", z))));
            }
            if !md.col_specs().is_empty() {
                let mut tv = "ok".to_string();
                match rows.rows_iter::<Row>() {
                    Err(_) => tv = "typecheck".to_string(),
                    Ok(it) => {
                        for (i, row) in it.enumerate() {
                            if row.is_err() {
                                tv = format!("err@{}", i);
                                break;
                            }
                        }
                    }
                }
                // typed tuple targets (DeserializeRow for tuples): the first one whose type_check accepts the columns
                fn first_err<'a, T: scylla_cql_core::deserialize::row::DeserializeRow<'a, 'a>>(
                    rows: &'a scylla_cql::frame::response::result::DeserializedMetadataAndRawRows,
                ) -> Option<String> {
                    let it = rows.rows_iter::<T>().ok()?;
                    for (i, row) in it.enumerate() {
                        if row.is_err() {
                            return Some(format!("err@{}", i));
                        }
                    }
                    Some("ok".to_string())
                }
                let typed = [
                    (1, first_err::<(Option<i32>,)>(rows)),
                    (2, first_err::<(Option<i64>, Option<String>)>(rows)),
                    (3, first_err::<(Option<Vec<u8>>,)>(rows)),
                    (4, first_err::<(Option<bool>,)>(rows)),
                    (5, first_err::<(Option<Vec<Option<i32>>>,)>(rows)),
                ];
                if let Some((k, Some(r))) = typed.iter().find(|(_, r)| r.is_some()) {
                    tv = format!("{},t{}:{}", tv, k, r);
                }
                TV.with(|t| t.set(tv));
            }
            format!(
                "Rows({},{},{},{},{},[{}])",
                opt(ps, |v| hx(&v)),
                opt(md.id(), hx),
                md.col_count(),
                lst(md.col_specs().iter(), r_col),
                rows.rows_count(),
                out_rows.join(",")
            )
        }
    })
}
fn sorted_kv<V>(m: impl IntoIterator<Item = (String, V)>, f: impl Fn(V) -> String) -> String {
    let mut v: Vec<(String, String)> = m.into_iter().map(|(k, v)| (hx(k.as_bytes()), f(v))).collect();
    v.sort();
    lst(v, |(k, v)| format!("({},{})", k, v))
}

// ------------------------------------------------------------------ error classes
const CLASSES: &[&str] = &[
    "IoError", "TooFewBytesReceived", "UTF8DeserializationError", "TryFromIntError", "InvalidValueLength",
    "UnknownConsistency", "InvalidInetLength", "UnknownResultId", "UnknownEventType",
    "UnknownTargetOfSchemaChange", "UnknownTypeOfChange", "ConnectionHostIdsLengthMismatch",
    "HostIdsUuidParseError", "IdPresentForEmptyMetadata", "NonZeroPagingState", "TypeNotImplemented",
    "TypeNestingTooDeep", "UnknownSimpleCustomTypeName", "UnknownComplexCustomTypeName", "UnexpectedCharacter",
    "IntegerParseError", "UnexpectedEndOfInput", "BadHexString", "InvalidUtf8", "InvalidParameterCount",
];
/// innermost known error variant named in the Debug rendering (string payloads removed)
fn classify(dbg: &str) -> String {
    let mut clean = String::with_capacity(dbg.len());
    let mut in_str = false;
    let mut esc = false;
    for ch in dbg.chars() {
        if in_str {
            if esc {
                esc = false;
            } else if ch == '\\' {
                esc = true;
            } else if ch == '"' {
                in_str = false;
            }
        } else if ch == '"' {
            in_str = true;
        } else {
            clean.push(ch);
        }
    }
    let mut best: Option<(usize, &str)> = None;
    for k in CLASSES {
        if let Some(p) = clean.rfind(k) {
            if best.map(|(bp, _)| p > bp).unwrap_or(true) {
                best = Some((p, k));
            }
        }
    }
    match best {
        Some((_, "TypeNestingTooDeep")) if clean.contains("CustomTypeParseError(TypeNestingTooDeep") => {
            "CustomTypeNestingTooDeep".into()
        }
        Some((_, k)) => k.to_string(),
        None => format!("Unclassified:{}", clean.chars().filter(|c| !c.is_whitespace()).take(80).collect::<String>()),
    }
}
fn low_class(e: &scylla_cql::frame::frame_errors::LowLevelDeserializationError) -> String {
    classify(&format!("{:?}", e))
}

// ------------------------------------------------------------------ one decode
struct Cfg {
    rate_limit: Option<i32>,
    metadata_id: bool,
    v2: bool,
    compression: Option<Compression>,
}
fn parse_cfg(ft: &str, mode: &str) -> Cfg {
    let mut rate_limit = None;
    let mut metadata_id = false;
    for part in ft.split(',') {
        if let Some(v) = part.strip_prefix("rl:") {
            if v != "-" {
                rate_limit = Some(if let Some(r) = v.strip_prefix('-') {
                    -(i64::from_str_radix(r, 16).unwrap()) as i32
                } else {
                    i64::from_str_radix(v, 16).unwrap() as i32
                });
            }
        } else if let Some(v) = part.strip_prefix("mid:") {
            metadata_id = v == "1";
        }
    }
    let mb = mode.as_bytes();
    Cfg {
        rate_limit,
        metadata_id,
        v2: mb[0] == b'2',
        compression: match mb[1] {
            b'l' => Some(Compression::Lz4),
            b's' => Some(Compression::Snappy),
            _ => None,
        },
    }
}
fn unhex(s: &str) -> Vec<u8> {
    if s == "-" {
        return vec![];
    }
    (0..s.len() / 2).map(|i| u8::from_str_radix(&s[2 * i..2 * i + 2], 16).unwrap()).collect()
}

/// the pipeline of the property: read_response_frame -> parse_response_body_extensions ->
/// Response(V2)::deserialize -> deserialize_metadata -> rows_iter
fn decode(cfg: &Cfg, frame: &[u8]) -> String {
    let mut reader: &[u8] = frame;
    decode_reader(cfg, &mut reader)
}

/// A reader that delivers the stream in chunks of the scheduled sizes (at least 1 byte, at most what the
/// caller's buffer takes); end of stream only at the end.
struct Chunked<'a> {
    data: &'a [u8],
    pos: usize,
    sizes: Vec<usize>,
    i: usize,
    /// what is left of the current chunk (a read that takes less than the chunk leaves the rest for the
    /// next read, as in Model/FrameChunk.v `read_n`)
    chunk_left: usize,
}
impl tokio::io::AsyncRead for Chunked<'_> {
    fn poll_read(
        mut self: std::pin::Pin<&mut Self>,
        _cx: &mut std::task::Context<'_>,
        buf: &mut tokio::io::ReadBuf<'_>,
    ) -> std::task::Poll<std::io::Result<()>> {
        let left = self.data.len() - self.pos;
        if left > 0 && buf.remaining() > 0 {
            if self.chunk_left == 0 {
                self.chunk_left = self.sizes[self.i % self.sizes.len()].max(1).min(left);
                self.i += 1;
            }
            let k = self.chunk_left.min(left).min(buf.remaining());
            let (a, b) = (self.pos, self.pos + k);
            buf.put_slice(&self.data[a..b]);
            self.pos = b;
            self.chunk_left -= k;
        }
        std::task::Poll::Ready(Ok(()))
    }
}
/// kind Q: two frames on one stream delivered in adversarial chunks (schedule derived from the bytes, so a
/// replay repeats it): the first frame through the whole pipeline, then what the reader hands out next
fn decode_chunked(cfg: &Cfg, stream: &[u8]) -> String {
    let mut h: u64 = 0xcbf29ce484222325;
    for b in stream {
        h = (h ^ *b as u64).wrapping_mul(0x100000001b3);
    }
    let mut r = Rng::new(h);
    // long streams only with few chunks: the model's read loop appends chunk by chunk (quadratic)
    let pickk = if stream.len() > 4096 { 2 + r.below(2) } else { r.below(6) };
    let sizes: Vec<usize> = match pickk {
        0 => vec![1],
        1 => vec![8, 1, 1, 3],                       // header split after 8 bytes
        2 => vec![9, 1, 1_000_000],                  // header alone, one body byte, the rest incl. the next frame
        3 => vec![1_000_000],                        // everything at once, spanning both frames
        4 => (0..16).map(|_| r.range(1, 5) as usize).collect(),
        _ => (0..16).map(|_| r.range(1, 64) as usize).collect(),
    };
    // sizes beyond the stream's length mean the same as the length (and keep the model's unary numbers small)
    let sizes: Vec<usize> = sizes.into_iter().map(|x| x.min(stream.len().max(1))).collect();
    let sch = sizes.iter().map(|x| x.to_string()).collect::<Vec<_>>().join(".");
    let mut reader = Chunked { data: stream, pos: 0, sizes, i: 0, chunk_left: 0 };
    let first = decode_reader(cfg, &mut reader);
    let second = match futures::executor::block_on(read_response_frame(&mut reader)) {
        Ok((p, op, body)) => format!("ok:{}:{}:{}:{}", p.flags, p.stream, op as u8, hx(&body)),
        Err(e) => format!("err:{}", header_class(&e)),
    };
    // sch = the chunk sizes (cyclic): an input of the model's chunked reader, not an output
    format!("{} q2={} sch={}", first, second, sch)
}
fn header_class(e: &FrameHeaderParseError) -> &'static str {
    match e {
        FrameHeaderParseError::HeaderIoError(_) => "HeaderIoError",
        FrameHeaderParseError::FrameFromClient => "FrameFromClient",
        FrameHeaderParseError::VersionNotSupported(_) => "VersionNotSupported",
        FrameHeaderParseError::UnknownResponseOpcode(_) => "UnknownResponseOpcode",
        FrameHeaderParseError::BodyChunkIoError(_, _) => "BodyChunkIoError",
        FrameHeaderParseError::ConnectionClosed(_, _) => "ConnectionClosed",
        _ => "OtherHeaderError",
    }
}

fn decode_reader<R: tokio::io::AsyncRead + Unpin>(cfg: &Cfg, reader: &mut R) -> String {
    let mut features = ProtocolFeatures::default();
    features.rate_limit_error = cfg.rate_limit;
    features.scylla_metadata_id_supported = cfg.metadata_id;
    let (params, opcode, body): (_, _, Bytes) = match futures::executor::block_on(read_response_frame(reader)) {
        Ok(x) => x,
        Err(e) => {
            let c = match e {
                FrameHeaderParseError::HeaderIoError(_) => "HeaderIoError",
                FrameHeaderParseError::FrameFromClient => "FrameFromClient",
                FrameHeaderParseError::VersionNotSupported(_) => "VersionNotSupported",
                FrameHeaderParseError::UnknownResponseOpcode(_) => "UnknownResponseOpcode",
                FrameHeaderParseError::BodyChunkIoError(_, _) => "BodyChunkIoError",
                FrameHeaderParseError::ConnectionClosed(_, _) => "ConnectionClosed",
                _ => "OtherHeaderError",
            };
            return format!("err hdr {}", c);
        }
    };
    let ext = match parse_response_body_extensions(params.flags, cfg.compression, body) {
        Ok(x) => x,
        Err(e) => {
            let c = match &e {
                FrameBodyExtensionsParseError::NoCompressionNegotiated => "NoCompressionNegotiated".to_string(),
                FrameBodyExtensionsParseError::TraceIdParse(l)
                | FrameBodyExtensionsParseError::WarningsListParse(l)
                | FrameBodyExtensionsParseError::CustomPayloadMapParse(l) => low_class(l),
                FrameBodyExtensionsParseError::SnapDecompressError(_)
                | FrameBodyExtensionsParseError::Lz4DecompressError(_) => "DecompressError".to_string(),
                _ => "OtherExtError".to_string(),
            };
            return format!("err ext {}", c);
        }
    };
    let ext_payload = ext.custom_payload.clone();
    TV.with(|t| t.set("-".to_string()));
    let head = format!(
        "F({},{},{},{},{},{},{},",
        params.version,
        params.flags,
        params.stream,
        opcode as u8,
        opt(ext.trace_id, |u| hx(u.as_bytes())),
        lst(ext.warnings.iter(), |s| hx(s.as_bytes())),
        opt(ext.custom_payload.as_ref(), |m| sorted_kv(m.iter().map(|(k, v)| (k.clone(), v.clone())), |v| hx(&v)))
    );
    let body_err = |dbg: String| format!("err body {}", classify(&dbg));
    let resp = if cfg.v2 {
        let r = match ResponseV2::deserialize(&features, opcode, ext.body, None) {
            Ok(r) => r,
            Err(e) => return body_err(format!("{:?}", e)),
        };
        let r = match r.deserialize_metadata() {
            Ok(r) => r,
            Err(e) => return body_err(format!("{:?}", e)),
        };
        match &r {
            RM2::Error(e) => format!("Error({},{})", r_db(&e.error), hx(e.reason.as_bytes())),
            RM2::Ready => "Ready".into(),
            RM2::Authenticate(a) => format!("Authenticate({})", hx(a.authenticator_name.as_bytes())),
            RM2::Supported(s) => format!(
                "Supported({})",
                sorted_kv(s.options.iter().map(|(k, v)| (k.clone(), v.clone())), |v| lst(v.iter(), |s| hx(s.as_bytes())))
            ),
            RM2::Result(res) => match r_result(res) {
                Ok(s) => format!("Result({})", s),
                Err(c) => return format!("err body {}", c),
            },
            RM2::Event(e) => format!("Event({})", r_ev2(e)),
            RM2::AuthChallenge(a) => format!("AuthChallenge({})", opt(a.authenticate_message.as_ref(), |v| hx(v))),
            RM2::AuthSuccess(a) => format!("AuthSuccess({})", opt(a.success_message.as_ref(), |v| hx(v))),
            _ => "UnknownResponse".into(),
        }
    } else {
        let r = match Response::deserialize(&features, opcode, ext.body, None) {
            Ok(r) => r,
            Err(e) => return body_err(format!("{:?}", e)),
        };
        let r = match r.deserialize_metadata() {
            Ok(r) => r,
            Err(e) => return body_err(format!("{:?}", e)),
        };
        match &r {
            RM::Error(e) => format!("Error({},{})", r_db(&e.error), hx(e.reason.as_bytes())),
            RM::Ready => "Ready".into(),
            RM::Authenticate(a) => format!("Authenticate({})", hx(a.authenticator_name.as_bytes())),
            RM::Supported(s) => format!(
                "Supported({})",
                sorted_kv(s.options.iter().map(|(k, v)| (k.clone(), v.clone())), |v| lst(v.iter(), |s| hx(s.as_bytes())))
            ),
            RM::Result(res) => match r_result(res) {
                Ok(s) => format!("Result({})", s),
                Err(c) => return format!("err body {}", c),
            },
            RM::Event(e) => format!("Event({})", r_ev(e)),
            RM::AuthChallenge(a) => format!("AuthChallenge({})", opt(a.authenticate_message.as_ref(), |v| hx(v))),
            RM::AuthSuccess(a) => format!("AuthSuccess({})", opt(a.success_message.as_ref(), |v| hx(v))),
        }
    };
    // the tablet routing entry of the custom payload (hook H6: RawTablet::from_custom_payload)
    let tb = match &ext_payload {
        None => "-".to_string(),
        Some(p) => {
            let mut vt = scylla::routing::locator::verif_tablets::VerifTablets::new();
            match vt.learn_from_payload("ks", "t", p, &std::collections::HashMap::new()) {
                None => "none".to_string(),
                Some(Err(c)) => format!("err:{}", c),
                Some(Ok(_)) => match vt.table_view("ks", "t") {
                    // no node is known: every replica stays in the tablet's unresolved list, as received
                    Some((_, views)) if views.len() == 1 => format!(
                        "ok:{},{},{}",
                        hex_i(views[0].first as i128),
                        hex_i(views[0].last as i128),
                        lst(views[0].failed.clone().unwrap_or_default().iter(), |(u, sh)| format!("({},{})", hx(u.as_bytes()), sh))
                    ),
                    _ => "ok:no-single-tablet".to_string(),
                },
            }
        }
    };
    format!("ok {}{}) tv={} tb={}", head, resp, TV.with(|t| t.take()), tb)
}

/// kind P: a PREPARED response followed by a Rows response on the same stream; the second is decoded
/// with the first one's result metadata as `cached_metadata` (the skip-metadata optimisation)
fn decode_pair(cfg: &Cfg, stream: &[u8]) -> String {
    use scylla_cql::frame::response::ResponseOpcode;
    let mut features = ProtocolFeatures::default();
    features.rate_limit_error = cfg.rate_limit;
    features.scylla_metadata_id_supported = cfg.metadata_id;
    let mut reader: &[u8] = stream;
    let (p1, op1, body1): (_, _, Bytes) = match futures::executor::block_on(read_response_frame(&mut reader)) {
        Ok(x) => x,
        Err(_) => return "pair none".into(),
    };
    if p1.flags != 0 || op1 != ResponseOpcode::Result {
        return "pair none".into();
    }
    let prepared = match ResponseV2::deserialize(&features, op1, body1, None) {
        Ok(ResponseV2::Result(scylla_cql::frame::response::result::Result::Prepared(p))) => p,
        _ => return "pair none".into(),
    };
    let cached = std::sync::Arc::new(prepared.result_metadata);
    let (p2, op2, body2): (_, _, Bytes) = match futures::executor::block_on(read_response_frame(&mut reader)) {
        Ok(x) => x,
        Err(e) => {
            let c = match e {
                FrameHeaderParseError::HeaderIoError(_) => "HeaderIoError",
                FrameHeaderParseError::FrameFromClient => "FrameFromClient",
                FrameHeaderParseError::VersionNotSupported(_) => "VersionNotSupported",
                FrameHeaderParseError::UnknownResponseOpcode(_) => "UnknownResponseOpcode",
                FrameHeaderParseError::ConnectionClosed(_, _) => "ConnectionClosed",
                _ => "OtherHeaderError",
            };
            return format!("err hdr {}", c);
        }
    };
    if p2.flags != 0 || op2 != ResponseOpcode::Result {
        return "pair none".into();
    }
    if body2.len() >= 4 && body2[..4] != [0, 0, 0, 2] {
        return "pair none".into();
    }
    TV.with(|t| t.set("-".to_string()));
    let r = match ResponseV2::deserialize(&features, op2, body2, Some(&cached)) {
        Ok(r) => r,
        Err(e) => return format!("err body {}", classify(&format!("{:?}", e))),
    };
    let r = match r.deserialize_metadata() {
        Ok(r) => r,
        Err(e) => return format!("err body {}", classify(&format!("{:?}", e))),
    };
    match &r {
        RM2::Result(res) => match r_result(res) {
            Ok(s) => format!("ok {} tv={}", s, TV.with(|t| t.take())),
            Err(c) => format!("err body {}", c),
        },
        _ => "pair none".into(),
    }
}

/// what the negotiated codec makes of the body (the model treats the codec as an oracle)
fn codec_oracle(cfg: &Cfg, frame: &[u8]) -> Option<String> {
    let comp = cfg.compression?;
    if frame.len() < 9 || frame[1] & 1 == 0 {
        return None;
    }
    let len = u32::from_be_bytes([frame[5], frame[6], frame[7], frame[8]]) as usize;
    if frame.len() < 9 + len {
        return None;
    }
    // g= : did the claimed-size guard of frame::decompress refuse (Model/FrameGuard.v `guard`)?
    //      1 = "claims an impossible uncompressed size", 2 = LZ4 body shorter than its prefix, 0 = guard passed
    Some(match scylla_cql::frame::decompress(&frame[9..9 + len], comp) {
        Ok(v) => format!("g=0 dc={}", hex_bytes(&v)),
        Err(e) => {
            let m = format!("{:?}", e);
            let g = if m.contains("impossible uncompressed size") { 1 } else if m.contains("shorter than its 4-byte size prefix") { 2 } else { 0 };
            format!("g={} dc=!", g)
        }
    })
}

// ------------------------------------------------------------------ kind Z: large, highly compressible well-formed bodies
/// hash of a byte string, the same in ocaml/c08/driver.ml (`zhash`): h = (h * 1000003 + b) mod 2^62
fn zhash(b: &[u8]) -> u64 {
    let mut h: u64 = 7;
    for &x in b {
        h = (h.wrapping_mul(1000003).wrapping_add(x as u64)) & ((1u64 << 62) - 1);
    }
    h
}
/// a long status is cut to its first 1500 characters + hash and length of the whole (same in the driver)
fn zshort(s: &str) -> String {
    if s.len() <= 4096 { s.to_string() } else { format!("{}#{:x}:{}", &s[..1500], zhash(s.as_bytes()), s.len()) }
}
/// The uncompressed frame of a Z case, `<fill>.<period>.<len>.<shape>` (hex fill, decimal period and length):
/// byte i of the payload is fill + (i mod period) (7 bits for the string shapes).  The driver builds the same
/// frame with the EXTRACTED encoder from the same spec and compares hash and length (`bh=`, `bl=`).
fn z_frame(spec: &str) -> Option<Vec<u8>> {
    let p: Vec<&str> = spec.split('.').collect();
    if p.len() != 4 {
        return None;
    }
    let fill = u8::from_str_radix(p[0], 16).ok()? as usize;
    let period: usize = p[1].parse().ok()?;
    let len: usize = p[2].parse().ok()?;
    if period == 0 || len == 0 || len > (64 << 20) {
        return None;
    }
    let pat = |n: usize, mask: u8| -> Vec<u8> { (0..n).map(|i| ((fill + i % period) as u8) & mask).collect() };
    let st = |b: &mut Vec<u8>, s: &[u8]| {
        b.extend_from_slice(&(s.len() as u16).to_be_bytes());
        b.extend_from_slice(s);
    };
    let rows_head = |ty: u16, rows: u32| -> Vec<u8> {
        let mut b = vec![];
        b.extend_from_slice(&2i32.to_be_bytes());
        b.extend_from_slice(&0i32.to_be_bytes());
        b.extend_from_slice(&1i32.to_be_bytes());
        st(&mut b, b"ks");
        st(&mut b, b"t");
        st(&mut b, b"c");
        b.extend_from_slice(&ty.to_be_bytes());
        b.extend_from_slice(&rows.to_be_bytes());
        b
    };
    Some(match p[3] {
        "blob" | "text" => {
            let (ty, mask) = if p[3] == "blob" { (0x0003, 0xff) } else { (0x000D, 0x7f) };
            let mut b = rows_head(ty, 1);
            b.extend_from_slice(&(len as u32).to_be_bytes());
            b.extend_from_slice(&pat(len, mask));
            frame(0, 8, &b)
        }
        "rows" => {
            let n = (len / 8).max(1);
            let mut b = rows_head(0x0009, n as u32);
            for _ in 0..n {
                b.extend_from_slice(&4u32.to_be_bytes());
                b.extend_from_slice(&[fill as u8; 4]);
            }
            frame(0, 8, &b)
        }
        "error" => {
            let mut b = vec![];
            b.extend_from_slice(&0i32.to_be_bytes());
            st(&mut b, &pat(len.min(65535), 0x7f));
            frame(0, 0, &b)
        }
        "supported" => {
            let slen = len.min(1024);
            let count = (len / 1024).clamp(1, 65535);
            let mut b = vec![];
            b.extend_from_slice(&1u16.to_be_bytes());
            st(&mut b, b"K");
            b.extend_from_slice(&(count as u16).to_be_bytes());
            let s = pat(slen, 0x7f);
            for _ in 0..count {
                st(&mut b, &s);
            }
            frame(0, 6, &b)
        }
        _ => return None,
    })
}
/// the frame with its body compressed by the REAL encoder (frame::compress_append: snap / lz4_flex)
fn z_compressed(plain: &[u8], comp: Compression) -> Option<Vec<u8>> {
    let mut g = plain[..9].to_vec();
    g[1] |= 1;
    scylla_cql::frame::compress_append(&plain[9..], comp, &mut g).ok()?;
    let l = (g.len() - 9) as u32;
    g[5..9].copy_from_slice(&l.to_be_bytes());
    Some(g)
}

/// Z bodies up to this size are also rebuilt and decoded by the extracted model in the driver (`cf=`);
/// above it the driver judges by `zeq=` (real decompress of the real encoder's output = the encoded body)
const Z_MODEL_MAX: usize = 140_000;
const Z_LENGTHS: [usize; 12] = [1024, 4096, 16384, 65535, 65536, 65537, 131072, 262144, 1 << 20, (1 << 20) + 1, 2 << 20, 4 << 20];

fn run_case(case: &str) -> String {
    let f: Vec<&str> = case.split_whitespace().collect();
    if f.len() != 4 {
        return "error bad-case".into();
    }
    // self-test kinds (replay only, never generated): the watchdog must attribute each to its input
    match f[0] {
        "Xabort" => std::process::abort(),
        // a decoder that does not terminate burns CPU (the repaired hangs did); a process that merely does
        // not get to run (Xsleep) is the machine's doing: `notrun env-stall`
        "Xhang" => loop {
            std::hint::black_box(0u64);
        },
        "Xprobe" => {
            let mut v: Vec<u8> = vec![0; 256 << 20];
            for i in (0..v.len()).step_by(4096) {
                v[i] = 1;
            }
            fn deep(n: u64) -> u64 {
                let a = [n; 64];
                if n == 0 { 0 } else { deep(n - 1) + std::hint::black_box(a)[7] }
            }
            // 1000 frames of >= 512 bytes: at least a quarter of the 2 MiB stack
            return format!("ok probe {} {} m=0 t=0", std::hint::black_box(&v)[4096], deep(std::hint::black_box(1000)));
        }
        "Xsleep" => loop {
            std::thread::sleep(std::time::Duration::from_secs(1));
        },
        "Xstack" => {
            fn deep(n: u64) -> u64 {
                let a = [n; 64];
                if n == 0 { 0 } else { deep(n - 1) + std::hint::black_box(a)[7] }
            }
            return format!("ok {} m=0 t=0", deep(std::hint::black_box(10_000_000)));
        }
        "Xalloc" => {
            let v: Vec<u8> = Vec::with_capacity(std::hint::black_box(1usize << 42));
            return format!("ok {} m=0 t=0", v.capacity());
        }
        _ => {}
    }
    let cfg = parse_cfg(f[1], f[2]);
    let zkind = f[0] == "Z";
    let mut zinfo = String::new();
    let frame = if zkind {
        let (Some(plain), Some(comp)) = (z_frame(f[3]), cfg.compression) else { return "error bad-z-case m=0 t=0".into() };
        let Some(g) = z_compressed(&plain, comp) else { return "error z-compress-failed m=0 t=0".into() };
        // what the real decoder makes of the real encoder's output, compared with the body that was encoded
        let (zeq, gd) = match scylla_cql::frame::decompress(&g[9..], comp) {
            Ok(v) => ((v == plain[9..]) as u8, 0),
            Err(e) => (0, if format!("{:?}", e).contains("impossible uncompressed size") { 1 } else { 0 }),
        };
        // r= achieved compression ratio x 100 (plain body / compressed body)
        zinfo = format!("g={} zeq={} bh={:x} bl={} cl={} r={} cf={}", gd, zeq, zhash(&plain), plain.len(), g.len(),
            (plain.len() - 9) * 100 / (g.len() - 9).max(1), if plain.len() <= Z_MODEL_MAX { hex_bytes(&g) } else { "-".to_string() });
        g
    } else {
        unhex(f[3])
    };
    let oracle = if zkind { Some(zinfo) } else { codec_oracle(&cfg, &frame) };
    MAXREQ.with(|m| m.set(0));
    TOTAL.with(|t| t.set(0));
    let pair = f[0] == "P";
    let chunked = f[0] == "Q";
    let status = match catch(std::panic::AssertUnwindSafe(|| {
        if pair { decode_pair(&cfg, &frame) } else if chunked { decode_chunked(&cfg, &frame) } else { decode(&cfg, &frame) }
    })) {
        Ok(s) => s,
        Err(m) => {
            format!("panic {}", m.split_whitespace().collect::<Vec<_>>().join("_").chars().take(80).collect::<String>())
        }
    };
    let (m, t) = (MAXREQ.with(|m| m.get()), TOTAL.with(|t| t.get()));
    let status = if zkind { zshort(&status) } else { status };
    match oracle {
        Some(o) => format!("{} {} m={} t={}", o, status, m, t),
        None => format!("{} m={} t={}", status, m, t),
    }
}

// ------------------------------------------------------------------ child
/// status without the measurement fields
fn outcome_only(r: &str) -> String {
    r.split_whitespace().filter(|f| !(f.starts_with("m=") || f.starts_with("t=") || f.starts_with("dc=") || f.starts_with("h="))).collect::<Vec<_>>().join(" ")
}
/// Stack high-water mark of one decode, by fill pattern: the unused part of the thread's stack (from
/// `SLACK` above its lower end up to just below the current frame) holds the pattern; after the decode the
/// lowest byte that no longer does is how deep the stack went.  Only what the decode dirtied is refilled.
const STACK_PAT: u8 = 0xA5;
const STACK_SLACK: usize = 96 << 10; // guard page, TLS block and rounding at the two ends of the mapping
static PAT_PAGE: [u8; 4096] = [STACK_PAT; 4096];
#[inline(never)]
fn here() -> usize {
    let x = 0u8;
    std::hint::black_box(&x) as *const u8 as usize
}
#[inline(never)]
fn stack_fill(lo: usize, hi: usize) {
    if hi > lo {
        // SAFETY: [lo, hi) lies inside this thread's own stack mapping, below every live frame (hi is 2 KiB
        // below the caller's frame; memset's own frame is far smaller)
        unsafe { std::ptr::write_bytes(lo as *mut u8, STACK_PAT, hi - lo) };
    }
}
/// lowest address in [lo, hi) that does not hold the pattern (hi if none)
#[inline(never)]
fn stack_lowest_dirty(lo: usize, hi: usize) -> usize {
    let mut a = lo;
    while a + 4096 <= hi {
        // SAFETY: as above; read only
        let page = unsafe { std::slice::from_raw_parts(a as *const u8, 4096) };
        if page != &PAT_PAGE[..] {
            break;
        }
        a += 4096;
    }
    while a < hi && unsafe { *(a as *const u8) } == STACK_PAT {
        a += 1;
    }
    a
}
fn worker(stack: usize, measure: bool) -> (std::sync::mpsc::Sender<String>, std::sync::mpsc::Receiver<String>) {
    let (tx, rx) = std::sync::mpsc::channel::<String>();
    let (rtx, rrx) = std::sync::mpsc::channel::<String>();
    std::thread::Builder::new()
        .stack_size(stack)
        .spawn(move || {
            let top = here();
            let lo = (top.saturating_sub(stack) + STACK_SLACK + 4095) & !4095;
            let hi = (top - 4096) & !4095; // the loop's own frames stay above
            if measure {
                stack_fill(lo, hi);
            }
            for c in rx {
                let r = run_case(&c);
                let r = if measure {
                    let d = stack_lowest_dirty(lo, hi);
                    stack_fill(d, hi);
                    // bytes of stack below the thread's entry frame; saturates at stack - SLACK
                    format!("{} h={}", r, top - d)
                } else {
                    r
                };
                if rtx.send(r).is_err() {
                    break;
                }
            }
        })
        .unwrap();
    (tx, rrx)
}
fn small_stack() -> usize {
    std::env::var("VERIF_C08_SMALL_STACK_KB").ok().and_then(|v| v.parse::<usize>().ok()).unwrap_or(512) << 10
}
/// Every case is decoded on a 2 MiB-stack thread (Tokio's default worker stack; this is the run that is
/// measured and reported) and, unless `bigonly`, once more on a 512 KiB-stack thread (VERIF_C08_SMALL_STACK_KB):
/// the recursion depth accounting of the model (<= 257 levels) predicts that a quarter of the stack is plenty.
fn child_main(file: &str, start: usize, end: usize, bigonly: bool) {
    use std::io::BufRead as _;
    let f = std::io::BufReader::new(std::fs::File::open(file).unwrap());
    let cases: Vec<String> = f.lines().skip(start).take(end.saturating_sub(start)).map(|l| l.unwrap()).collect();
    let (btx, brx) = worker(2 << 20, false);
    let (stx, srx) = worker(small_stack(), true);
    let out = std::io::stdout();
    {
        let mut o = out.lock();
        writeln!(o, "ready").unwrap();
        o.flush().unwrap();
    }
    for (k, c) in cases.iter().enumerate() {
        btx.send(c.clone()).unwrap();
        let r = match brx.recv() {
            Ok(r) => r,
            Err(_) => std::process::abort(),
        };
        // s= the second run on the small stack; h= its stack high-water mark (bytes)
        let (small, hwm) = if bigonly || c.starts_with('X') {
            ("-", "-".to_string())
        } else {
            stx.send(c.clone()).unwrap();
            match srx.recv() {
                Ok(r2) => {
                    let h = r2.rsplit_once(" h=").map(|(_, h)| h.to_string()).unwrap_or_else(|| "-".into());
                    (if outcome_only(&r2) == outcome_only(&r) { "ok" } else { "differ" }, h)
                }
                Err(_) => std::process::abort(),
            }
        };
        let mut o = out.lock();
        writeln!(o, "{} {} s={} h={}", start + k, r, small, hwm).unwrap();
        o.flush().unwrap();
    }
}

// ------------------------------------------------------------------ parent: run cases in children
fn ulimit_kb() -> u64 {
    // 8 GiB: everything the property judges is far below or far above; VERIF_C08_ULIMIT_KB for experiments
    std::env::var("VERIF_C08_ULIMIT_KB").ok().and_then(|v| v.parse().ok()).unwrap_or(8 << 20)
}
struct Child {
    ch: std::process::Child,
    rx: std::sync::mpsc::Receiver<String>,
    rd: Option<std::thread::JoinHandle<()>>,
}
enum Got {
    Line(String),
    Timeout,
    /// no answer within the wall-clock cap although the child used less CPU time than the limit: the
    /// machine (load, swap, SIGSTOP), not the decoders
    Stall,
    Died(String),
}
/// CPU seconds (user + system, all threads) the process has used so far, from /proc/<pid>/stat
fn cpu_seconds(pid: u32) -> Option<f64> {
    let st = std::fs::read_to_string(format!("/proc/{}/stat", pid)).ok()?;
    let rest = st.rsplit_once(')')?.1;
    let f: Vec<&str> = rest.split_whitespace().collect();
    // fields after "pid (comm)": state=0 ... utime=11 stime=12 (in clock ticks, 100 per second on Linux)
    let ut: f64 = f.get(11)?.parse().ok()?;
    let stt: f64 = f.get(12)?.parse().ok()?;
    Some((ut + stt) / 100.0)
}
impl Child {
    /// None: the child did not come up within two minutes (environment trouble, not the decoders)
    fn start(exe: &std::path::Path, infile: &str, lo: usize, hi: usize, bigonly: bool) -> Option<Child> {
        let cmd = format!(
            "ulimit -v {}; exec '{}' --child '{}' {} {}{}",
            ulimit_kb(), exe.display(), infile, lo, hi, if bigonly { " bigonly" } else { "" }
        );
        let mut ch = std::process::Command::new("sh")
            .arg("-c")
            .arg(&cmd)
            .stdout(std::process::Stdio::piped())
            .stderr(std::process::Stdio::null())
            .spawn()
            .ok()?;
        let so = ch.stdout.take().unwrap();
        let (tx, rx) = std::sync::mpsc::channel::<String>();
        let rd = std::thread::spawn(move || {
            for l in std::io::BufReader::new(so).lines() {
                match l {
                    Ok(l) => {
                        if tx.send(l).is_err() {
                            break;
                        }
                    }
                    Err(_) => break,
                }
            }
        });
        let mut c = Child { ch, rx, rd: Some(rd) };
        match c.get(120) {
            Got::Line(l) if l == "ready" => Some(c),
            _ => {
                c.stop();
                None
            }
        }
    }
    fn get(&mut self, timeout_s: u64) -> Got {
        match self.rx.recv_timeout(std::time::Duration::from_secs(timeout_s)) {
            Ok(l) => Got::Line(l),
            Err(std::sync::mpsc::RecvTimeoutError::Timeout) => Got::Timeout,
            Err(std::sync::mpsc::RecvTimeoutError::Disconnected) => {
                let st = self.ch.wait().ok();
                Got::Died(st.map(|s| format!("{}", s).replace(' ', "_")).unwrap_or_default())
            }
        }
    }
    /// "does not terminate" judged in CPU time: Timeout only when the child itself burnt `cpu_limit_s`
    /// seconds on the input; a wall-clock wait of `wall_cap_s` with less CPU time than that is a Stall
    fn get_cpu(&mut self, cpu_limit_s: u64, wall_cap_s: u64) -> Got {
        let pid = self.ch.id();
        let cpu0 = cpu_seconds(pid);
        let t0 = std::time::Instant::now();
        loop {
            match self.get(1) {
                Got::Timeout => {
                    let used = match (cpu0, cpu_seconds(pid)) {
                        (Some(a), Some(b)) => Some(b - a),
                        _ => None,
                    };
                    if let Some(u) = used {
                        if u >= cpu_limit_s as f64 {
                            return Got::Timeout;
                        }
                    }
                    if t0.elapsed().as_secs() >= wall_cap_s {
                        return Got::Stall;
                    }
                }
                g => return g,
            }
        }
    }
    fn stop(&mut self) {
        let _ = self.ch.kill();
        let _ = self.ch.wait();
        if let Some(rd) = self.rd.take() {
            let _ = rd.join();
        }
    }
}
fn env_signal(how: &str) -> bool {
    // killed from outside (OOM killer, operator): not something the decoders do to themselves
    // also: SIGBUS (a mapping that could not be backed) and a plain exit status (the harness's own
    // unwrap / a closed pipe: the decoders cannot exit the process; a panic in them is caught, an abort or a
    // stack overflow is a signal)
    how.contains("SIGKILL") || how.contains("SIGTERM") || how.contains("signal:_9") || how.contains("signal:_15")
        || how.contains("SIGBUS") || how.contains("signal:_7") || how.starts_with("exit_status")
}
/// Before any case: can a child of this environment (inherited limits, overcommit policy) allocate and
/// touch 256 MiB and use a good part of its 2 MiB stack?  If not, an abort would say nothing about the decoders.
fn preflight(exe: &std::path::Path, infile: &str) -> bool {
    let probe = format!("{}.probe", infile);
    if std::fs::write(&probe, "Xprobe rl:-,mid:0 2n 84\n").is_err() {
        return false;
    }
    let ok = match Child::start(exe, &probe, 0, 1, true) {
        None => false,
        Some(mut c) => {
            let g = c.get(120);
            c.stop();
            matches!(g, Got::Line(l) if l.contains(" ok probe "))
        }
    };
    let _ = std::fs::remove_file(&probe);
    ok
}
/// Second opinion on a case that made a child die / stall: the case alone in a fresh child, the same
/// limit counted in CPU time of that child (ten times as much wall clock before `env-stall`); if it dies again, once more without the small-stack run to tell which of the
/// two runs died.
fn run_alone(exe: &std::path::Path, infile: &str, idx: usize, timeout_s: u64) -> String {
    let one = |bigonly: bool| -> Got {
        match Child::start(exe, infile, idx, idx + 1, bigonly) {
            None => Got::Died("env-child-start".into()),
            Some(mut c) => {
                // the limit is CPU time of the child; ten times that in wall-clock time before giving up
                let g = c.get_cpu(timeout_s, 10 * timeout_s);
                c.stop();
                g
            }
        }
    };
    let strip = |l: String| l.split_once(' ').map(|(_, r)| r.to_string()).unwrap_or_default();
    match one(false) {
        Got::Line(l) => strip(l),
        Got::Timeout => "timeout m=0 t=0 s=-".into(),
        Got::Stall => "notrun env-stall m=0 t=0 s=-".into(),
        Got::Died(how) if how == "env-child-start" => "notrun env-child-start m=0 t=0 s=-".into(),
        // killed from outside: says nothing about either run; one more attempt, then not-run
        Got::Died(how) if env_signal(&how) => match one(false) {
            Got::Line(l) => strip(l),
            _ => format!("notrun env-{} m=0 t=0 s=-", how),
        },
        Got::Died(_how) => match one(true) {
            // the measured 2 MiB run is fine: it was the small-stack run that died
            Got::Line(l) => strip(l).replace(" s=-", " s=overflow"),
            Got::Timeout => "timeout m=0 t=0 s=-".into(),
            Got::Stall => "notrun env-stall m=0 t=0 s=-".into(),
            Got::Died(how2) if env_signal(&how2) || how2 == "env-child-start" => format!("notrun env-{} m=0 t=0 s=-", how2),
            Got::Died(how2) => format!("abort {} m=0 t=0 s=-", how2),
        },
    }
}

/// After this many inputs have been confirmed as not terminating the run stops waiting for more of them:
/// the remaining inputs are reported not-run (the check fails on the confirmed ones anyway), so that a tree
/// in which a whole family of inputs hangs still gives its verdict within minutes.
const MAX_CONFIRMED_HANGS: usize = 5;
static CONFIRMED_HANGS: std::sync::atomic::AtomicUsize = std::sync::atomic::AtomicUsize::new(0);
fn too_many_hangs() -> bool {
    CONFIRMED_HANGS.load(std::sync::atomic::Ordering::SeqCst) >= MAX_CONFIRMED_HANGS
}
const SKIPPED: &str = "notrun env-skipped-after-confirmed-hangs m=0 t=0 s=-";

fn run_in_children(cases: &[String], infile: &str, per_input_timeout_s: u64, workers: usize) -> Vec<String> {
    std::fs::write(infile, cases.join("\n") + "\n").unwrap();
    let exe = std::env::current_exe().unwrap();
    let n = cases.len();
    if !preflight(&exe, infile) && !preflight(&exe, infile) {
        return vec!["notrun env-preflight m=0 t=0 s=-".to_string(); n];
    }
    let chunk = n.div_ceil(workers.max(1));
    let mut handles = vec![];
    for w in 0..workers {
        let (lo, hi) = (w * chunk, ((w + 1) * chunk).min(n));
        if lo >= hi {
            continue;
        }
        let exe = exe.clone();
        let infile = infile.to_string();
        handles.push(std::thread::spawn(move || {
            let mut res: Vec<(usize, String)> = vec![];
            let mut next = lo;
            let mut start_failures = 0;
            while next < hi {
                if too_many_hangs() {
                    for i in next..hi {
                        res.push((i, SKIPPED.into()));
                    }
                    break;
                }
                let mut ch = match Child::start(&exe, &infile, next, hi, false) {
                    Some(c) => c,
                    None => {
                        start_failures += 1;
                        if start_failures >= 3 {
                            for i in next..hi {
                                res.push((i, "notrun env-child-start m=0 t=0 s=-".into()));
                            }
                            break;
                        }
                        continue;
                    }
                };
                loop {
                    match ch.get(per_input_timeout_s) {
                        Got::Line(l) => {
                            let (i, r) = l.split_once(' ').unwrap_or((&l, ""));
                            if let Ok(i) = i.parse::<usize>() {
                                res.push((i, r.to_string()));
                                next = i + 1;
                            }
                            if next >= hi || too_many_hangs() {
                                break;
                            }
                        }
                        Got::Timeout | Got::Stall | Got::Died(_) => {
                            ch.stop();
                            if next < hi {
                                let r = if too_many_hangs() {
                                    SKIPPED.to_string()
                                } else {
                                    // alone in a fresh child; the limit is CPU time of that child (the slowest
                                    // legitimate input takes 0.07 s at load 50: more than 100 x margin)
                                    run_alone(&exe, &infile, next, per_input_timeout_s)
                                };
                                if r.starts_with("timeout") {
                                    CONFIRMED_HANGS.fetch_add(1, std::sync::atomic::Ordering::SeqCst);
                                }
                                res.push((next, r));
                                next += 1;
                            }
                            break;
                        }
                    }
                }
                ch.stop();
            }
            res
        }));
    }
    let mut out = vec![String::new(); n];
    for h in handles {
        for (i, r) in h.join().unwrap() {
            if i < n {
                out[i] = r;
            }
        }
    }
    out
}

// ------------------------------------------------------------------ generators
fn be16(v: u16) -> [u8; 2] {
    v.to_be_bytes()
}
fn be32(v: i32) -> [u8; 4] {
    v.to_be_bytes()
}
fn s16(s: &[u8]) -> Vec<u8> {
    let mut v = be16(s.len() as u16).to_vec();
    v.extend_from_slice(s);
    v
}
fn frame(flags: u8, opcode: u8, body: &[u8]) -> Vec<u8> {
    let mut f = vec![0x84, flags, 0, 1, opcode];
    f.extend_from_slice(&(body.len() as u32).to_be_bytes());
    f.extend_from_slice(body);
    f
}
/// RESULT/Rows with one column whose type is given in the binary notation
fn rows_with_type(ty: &[u8]) -> Vec<u8> {
    let mut b = vec![];
    b.extend_from_slice(&be32(2));
    b.extend_from_slice(&be32(1));
    b.extend_from_slice(&be32(1));
    for s in ["ks", "t", "c"] {
        b.extend_from_slice(&s16(s.as_bytes()));
    }
    b.extend_from_slice(ty);
    b.extend_from_slice(&be32(0));
    frame(0, 8, &b)
}
fn custom_ty(s: &str) -> Vec<u8> {
    let mut v = be16(0).to_vec();
    v.extend_from_slice(&s16(s.as_bytes()));
    v
}
const FT0: &str = "rl:-,mid:0";

/// kind V: typed column values whose element count is inflated (2^16, 2^24, i32::MAX) with nothing, a few
/// elements behind it (and an honest count of 2^10 for contrast): list / set / map / nested list cells and vectors
/// with 65535 dimensions.  The typed targets (Row over CqlValue, Vec<Option<i32>>) must refuse or accept
/// them with allocations in proportion to the bytes that are there.
fn inflated_count_cases() -> Vec<String> {
    let m = "org.apache.cassandra.db.marshal.";
    let types: Vec<(&str, Vec<u8>, usize)> = vec![
        // (name, binary type, 4-byte-length-prefixed items per element)
        ("list<int>", [be16(0x20), be16(9)].concat(), 1),
        ("set<int>", [be16(0x22), be16(9)].concat(), 1),
        ("map<int,int>", [be16(0x21), be16(9), be16(9)].concat(), 2),
        ("list<text>", [be16(0x20), be16(0x0d)].concat(), 1),
        ("list<list<int>>", [be16(0x20), be16(0x20), be16(9)].concat(), 1),
    ];
    let mut out = vec![];
    let mut push = |ty: &[u8], cell: &[u8]| {
        let mut f = rows_with_type(ty);
        let n = f.len();
        f[n - 4..].copy_from_slice(&be32(1));
        f.extend_from_slice(&be32(cell.len() as i32));
        f.extend_from_slice(cell);
        let l = (f.len() - 9) as u32;
        f[5..9].copy_from_slice(&l.to_be_bytes());
        for mode in ["2n", "1n"] {
            out.push(format!("V {} {} {}", FT0, mode, hex_bytes(&f)));
        }
    };
    for (name, ty, per) in &types {
        for count in [1i32 << 16, 1 << 24, i32::MAX] {
            let item: Vec<u8> = if *name == "list<list<int>>" {
                // an inner list whose own count is inflated too
                [be32(4).to_vec(), be32(count).to_vec()].concat()
            } else {
                [be32(4).to_vec(), be32(7).to_vec()].concat()
            };
            for present in [0usize, 1, 8] {
                let mut cell = be32(count).to_vec();
                for _ in 0..present * per {
                    cell.extend_from_slice(&item);
                }
                push(ty, &cell);
            }
            // the count alone, cut inside (3 of its 4 bytes)
            push(ty, &be32(count)[..3]);
        }
        if *per == 1 && *name != "list<list<int>>" {
            // for contrast a large count that is honest: 2^10 elements really there (the model of the typed
            // values is quadratic in the element count: 2^16 present elements take it minutes)
            let mut cell = be32(1 << 10).to_vec();
            for _ in 0..(1 << 10) {
                cell.extend_from_slice(&be32(4));
                cell.extend_from_slice(&be32(7));
            }
            push(ty, &cell);
        }
    }
    // vectors: the element count is the dimension in the type string
    for (elem, cell) in [
        ("Int32Type", vec![]), ("Int32Type", vec![0, 0, 0, 1]), ("Int32Type", vec![0, 0, 0, 1, 0, 0]),
        ("UTF8Type", vec![]), ("UTF8Type", vec![1, 97]), ("UTF8Type", vec![1, 97, 5, 98]),
    ] {
        let ty = custom_ty(&format!("{m}VectorType({m}{elem}, 65535)"));
        push(&ty, &cell);
    }
    out
}

/// the inputs that crashed / hung the decoders before the repairs (DESIGN §8 F3, F4, F6 and the
/// custom-type / lz4 findings of this check): reverting a repair makes these `abort`/`timeout`
fn known_reproducers() -> Vec<String> {
    let mut v: Vec<(String, String, Vec<u8>)> = vec![];
    let mut add = |mode: &str, f: Vec<u8>| v.push((FT0.to_string(), mode.to_string(), f));
    // F4: col_count = i32::MAX in a 30-byte frame; pk_count = i32::MAX
    let mut b = vec![];
    b.extend_from_slice(&be32(2));
    b.extend_from_slice(&be32(1));
    b.extend_from_slice(&be32(i32::MAX));
    b.extend_from_slice(&s16(b"k"));
    b.extend_from_slice(&s16(b"t"));
    b.extend_from_slice(&[0, 0, 0]);
    add("2n", frame(0, 8, &b));
    let mut b = vec![];
    b.extend_from_slice(&be32(4));
    b.extend_from_slice(&s16(b"id"));
    b.extend_from_slice(&be32(0));
    b.extend_from_slice(&be32(i32::MAX));
    b.extend_from_slice(&be32(i32::MAX));
    add("2n", frame(0, 8, &b));
    let mut b = vec![];
    b.extend_from_slice(&be32(4));
    b.extend_from_slice(&s16(b"id"));
    b.extend_from_slice(&be32(0));
    b.extend_from_slice(&be32(0));
    b.extend_from_slice(&be32(0));
    b.extend_from_slice(&be32(0));
    b.extend_from_slice(&be32(i32::MAX));
    add("1n", frame(0, 8, &b));
    // F6: header announcing a 4 GiB / 2 GiB body, then EOF
    for len in [0xFFFF_FFFFu32, 0x7FFF_FFFF, 0x4000_0000, (1 << 20) + 1] {
        let mut f = vec![0x84, 0, 0, 1, 8];
        f.extend_from_slice(&len.to_be_bytes());
        f.extend_from_slice(&[0, 0, 0, 1]);
        add("2n", f);
    }
    // F3: list<list<...>> nested 10^5 deep (200 KB), also 128 / 129 / 130 / 1000
    for depth in [128usize, 129, 130, 1000, 100_000] {
        let mut ty = vec![];
        for _ in 0..depth {
            ty.extend_from_slice(&be16(0x20));
        }
        ty.extend_from_slice(&be16(9));
        add("2n", rows_with_type(&ty));
    }
    // custom type strings: unclosed / stuck parameter lists (hang), exponential re-parse, deep nesting
    for s in [
        "ListType(", "ListType(Int32Type", "ListType(Int32Type,", "ListType($)", "ListType($", "MapType(a$",
        "SetType(Int32Type $ )", "FrozenType(=)", "MapType(Int32Type", "MapType(Int32Type)", "TupleType(",
        "UserType(ks,61,62:", "VectorType(", "VectorType(Int32Type", "VectorType(Int32Type, 70000)",
    ] {
        add("2n", rows_with_type(&custom_ty(s)));
    }
    for n in [22usize, 60, 127, 128, 129, 2500] {
        add("2n", rows_with_type(&custom_ty(&"ListType(Int32Type,".repeat(n))));
        add("2n", rows_with_type(&custom_ty(&format!("{}Int32Type{}", "SetType(".repeat(n), ")".repeat(n)))));
        add("2n", rows_with_type(&custom_ty(&format!("{}Int32Type", "FrozenType(".repeat(n)))));
    }
    // binary nesting 128 with a custom string nested 127 inside
    {
        let mut ty = vec![];
        for _ in 0..128 {
            ty.extend_from_slice(&be16(0x22));
        }
        ty.extend_from_slice(&custom_ty(&format!("{}Int32Type{}", "ListType(".repeat(127), ")".repeat(127))));
        add("2n", rows_with_type(&ty));
    }
    // values nested as deep as the two type-nesting limits allow (128 binary levels + a custom string
    // of 120 levels): typed deserialisation recurses 249 levels on the 2 MiB stack
    {
        let mut ty = vec![];
        for _ in 0..128 {
            ty.extend_from_slice(&be16(0x20));
        }
        ty.extend_from_slice(&custom_ty(&format!("{}Int32Type{}", "ListType(".repeat(120), ")".repeat(120))));
        let mut v: Vec<u8> = vec![0, 0, 0, 7];
        for _ in 0..248 {
            let mut w = be32(1).to_vec();
            w.extend_from_slice(&be32(v.len() as i32));
            w.extend_from_slice(&v);
            v = w;
        }
        let mut f = rows_with_type(&ty);
        let n = f.len();
        f[n - 4..].copy_from_slice(&be32(1)); // one row
        f.extend_from_slice(&be32(v.len() as i32));
        f.extend_from_slice(&v);
        let l = (f.len() - 9) as u32;
        f[5..9].copy_from_slice(&l.to_be_bytes());
        add("2n", f.clone());
        // the same with the innermost element cut off
        let mut g = f[..f.len() - 2].to_vec();
        let l = (g.len() - 9) as u32;
        g[5..9].copy_from_slice(&l.to_be_bytes());
        add("2n", g);
    }
    // lz4 body claiming 4 GiB / 1 GiB of output
    for claimed in [0xFFFF_FFFFu32, 0x4000_0000, 3000] {
        let mut body = claimed.to_be_bytes().to_vec();
        body.extend_from_slice(&[0x10, 0x41, 0, 0, 0]);
        add("2l", frame(1, 2, &body));
    }
    // Snappy body whose length header claims 4 GiB / 1 GiB / a plausible size (open finding
    // snappy-claimed-size-reservation: the snap crate sizes its buffer from it)
    for hdr in [&[0xffu8, 0xff, 0xff, 0xff, 0x0f][..], &[0x80, 0x80, 0x80, 0x80, 0x04][..], &[0x20][..]] {
        let mut body = hdr.to_vec();
        body.extend_from_slice(&[0x00, 0x41]);
        add("2s", frame(1, 2, &body));
    }
    // u16 counts without data: string list / multimap / warnings / payload, nested udt / tuple 129 levels
    add("2n", frame(0, 6, &[0xFF, 0xFF]));
    add("2n", frame(0, 6, &[0xFF, 0xFF, 0, 1, b'a', 0xFF, 0xFF]));
    add("2n", frame(8, 2, &[0xFF, 0xFF]));
    add("2n", frame(4, 2, &[0xFF, 0xFF]));
    {
        let mut ty = vec![];
        for _ in 0..129 {
            ty.extend_from_slice(&be16(0x30));
            ty.extend_from_slice(&s16(b""));
            ty.extend_from_slice(&s16(b""));
            ty.extend_from_slice(&be16(0xFFFF));
            ty.extend_from_slice(&s16(b""));
        }
        add("2n", rows_with_type(&ty));
        let mut ty = vec![];
        for _ in 0..129 {
            ty.extend_from_slice(&be16(0x31));
            ty.extend_from_slice(&be16(0xFFFF));
        }
        add("2n", rows_with_type(&ty));
    }
    // rows_count = i32::MAX with one column and no data; with no columns
    let mut b = vec![];
    b.extend_from_slice(&be32(2));
    b.extend_from_slice(&be32(1));
    b.extend_from_slice(&be32(1));
    for s in ["ks", "t", "c"] {
        b.extend_from_slice(&s16(s.as_bytes()));
    }
    b.extend_from_slice(&be16(9));
    b.extend_from_slice(&be32(i32::MAX));
    add("2n", frame(0, 8, &b));
    let mut b = vec![];
    b.extend_from_slice(&be32(2));
    b.extend_from_slice(&be32(0));
    b.extend_from_slice(&be32(0));
    b.extend_from_slice(&be32(i32::MAX));
    add("2n", frame(0, 8, &b));
    // every reproducer under both feature sets
    let mut out: Vec<String> = vec![];
    for (_, mode, f) in &v {
        for ft in [FT0, "rl:4321,mid:1"] {
            out.push(format!("K {} {} {}", ft, mode, hex_bytes(f)));
        }
    }
    out
}

/// custom-type strings that parse (every branch of get_complex_abstract_type), used as they are and
/// with character-level damage (kind S); the column gets one row with a null cell
fn custom_type_cases(r: &mut Rng) -> Vec<String> {
    let m = "org.apache.cassandra.db.marshal.";
    let good: Vec<String> = vec![
        format!("{m}VectorType({m}FloatType , 3)"),
        format!("{m}VectorType({m}Int32Type, 3)"),
        format!("{m}VectorType({m}UTF8Type,2)"),
        "VectorType(VectorType(Int32Type,2),4)".into(),
        format!("{m}ListType({m}VectorType({m}Int32Type, 3))"),
        format!("{m}MapType({m}UTF8Type,{m}ListType({m}LongType))"),
        format!("{m}SetType({m}TimeUUIDType)"),
        format!("{m}TupleType({m}Int32Type,{m}UTF8Type, {m}BooleanType)"),
        "TupleType(Int32Type)".into(),
        format!("{m}FrozenType({m}ListType({m}SetType({m}Int32Type)))"),
        format!("{m}VectorType({m}FrozenType({m}ListType({m}FrozenType({m}SetType({m}Int32Type)))),2)"),
        format!("{m}UserType(ks,6e616d65,61:{m}Int32Type,62:{m}UTF8Type)"),
        format!("{m}UserType(ks,75,66:{m}FrozenType({m}UserType(ks,76,67:{m}ListType({m}DoubleType))))"),
        "UserType(k_s.1,,:BytesType)".into(),
        format!("7b:{m}Int32Type"),
        "1f:ListType(2a:ShortType)".into(),
        " ListType ( Int32Type ) ".into(),
        "MapType(Int32Type Int32Type)".into(),
        "".into(),
        "DateType".into(), "SimpleDateType".into(), "CounterColumnType".into(), "DecimalType".into(),
        "DurationType".into(), "InetAddressType".into(), "IntegerType".into(), "ByteType".into(),
        "TimeType".into(), "TimestampType".into(), "UUIDType".into(), "AsciiType".into(), "DoubleType".into(),
        "TinyIntType".into(), "SmallIntType".into(),
    ];
    let alphabet: &[u8] = b"(),: .:0a9fZ_-+&$\tx";
    let mut out = vec![];
    let mk = |s: &[u8]| {
        let mut ty = be16(0).to_vec();
        ty.extend_from_slice(&s16(s));
        let mut f = rows_with_type(&ty);
        let n = f.len();
        f[n - 4..].copy_from_slice(&be32(1));
        f.extend_from_slice(&be32(-1));
        let l = (f.len() - 9) as u32;
        f[5..9].copy_from_slice(&l.to_be_bytes());
        format!("S {} 2n {}", FT0, hex_bytes(&f))
    };
    // vector<int, 3> under the typed target Vec<Option<i32>> (Vec<T>::type_check accepts vectors): cells of
    // 12 bytes, 8 (exhausted slice = null element), 16 (rest ignored), 0, 6 and 13 (element cut: error)
    for cell in [12usize, 8, 16, 0, 6, 13, 4, 3] {
        let mut ty = be16(0).to_vec();
        ty.extend_from_slice(&s16(format!("{m}VectorType({m}Int32Type, 3)").as_bytes()));
        let mut f = rows_with_type(&ty);
        let n = f.len();
        f[n - 4..].copy_from_slice(&be32(2));
        f.extend_from_slice(&be32(cell as i32));
        f.extend((0..cell).map(|i| (i * 37 + 1) as u8));
        f.extend_from_slice(&be32(-1));
        let l = (f.len() - 9) as u32;
        f[5..9].copy_from_slice(&l.to_be_bytes());
        out.push(format!("S {} 2n {}", FT0, hex_bytes(&f)));
    }
    for g in &good {
        out.push(mk(g.as_bytes()));
        for _ in 0..40 {
            let mut b = g.as_bytes().to_vec();
            for _ in 0..r.range(1, 3) {
                if b.is_empty() {
                    b.push(*r.pick(alphabet));
                    continue;
                }
                let i = r.below(b.len() as u64) as usize;
                match r.below(4) {
                    0 => {
                        b.remove(i);
                    }
                    1 => b.insert(i, *r.pick(alphabet)),
                    2 => b[i] = *r.pick(alphabet),
                    _ => b.truncate(i),
                }
            }
            out.push(mk(&b));
        }
    }
    out
}

fn mutate(r: &mut Rng, f: &[u8]) -> Vec<u8> {
    let mut m = f.to_vec();
    if m.is_empty() {
        return m;
    }
    let body0 = 9.min(m.len() - 1);
    match r.below(12) {
        // 4-byte field at a random offset of the body <- boundary value
        0..=3 => {
            let off = r.range(body0 as u64, (m.len() - 1) as u64) as usize;
            let v: i32 = *r.pick(&[0, -1, -2, i32::MAX, i32::MIN, 1, 65535, 65536, 0x7FFF_FFFE]);
            for (i, b) in v.to_be_bytes().iter().enumerate() {
                if off + i < m.len() {
                    m[off + i] = *b;
                }
            }
        }
        // 2-byte field <- boundary value / type id
        4..=6 => {
            let off = r.range(body0 as u64, (m.len() - 1) as u64) as usize;
            let v: u16 = *r.pick(&[0, 1, 0xFFFF, 0x7FFF, 0x8000, 0x20, 0x21, 0x22, 0x30, 0x31, 0x0A, 0x16, 0x80]);
            for (i, b) in v.to_be_bytes().iter().enumerate() {
                if off + i < m.len() {
                    m[off + i] = *b;
                }
            }
        }
        // off by one on a byte
        7 => {
            let off = r.below(m.len() as u64) as usize;
            m[off] = if r.bool() { m[off].wrapping_add(1) } else { m[off].wrapping_sub(1) };
        }
        // flip a bit (flags, ids, utf-8 lead bytes)
        8 => {
            let off = r.below(m.len() as u64) as usize;
            m[off] ^= 1 << r.below(8);
        }
        // header fields: version / flags / opcode / length
        9 => match r.below(4) {
            0 => m[0] = *r.pick(&[0x04, 0x83, 0x85, 0x80, 0xFF]),
            1 => {
                if m.len() > 1 {
                    m[1] = r.u64() as u8 & 0x1F;
                }
            }
            2 => {
                if m.len() > 4 {
                    m[4] = *r.pick(&[0, 1, 2, 3, 5, 6, 7, 8, 12, 14, 16, 17, 0xFF]);
                }
            }
            _ => {
                if m.len() >= 9 {
                    let l = u32::from_be_bytes([m[5], m[6], m[7], m[8]]);
                    let nl = *r.pick(&[l.wrapping_add(1), l.wrapping_sub(1), 0, l / 2, 0xFFFF_FFFF]);
                    m[5..9].copy_from_slice(&nl.to_be_bytes());
                }
            }
        },
        // delete / insert a byte in the body, fixing the length
        10 => {
            if m.len() > 10 {
                let off = r.range(9, (m.len() - 1) as u64) as usize;
                if r.bool() {
                    m.remove(off);
                } else {
                    m.insert(off, r.u64() as u8);
                }
                let l = (m.len() - 9) as u32;
                m[5..9].copy_from_slice(&l.to_be_bytes());
            }
        }
        // overwrite a run with random bytes
        _ => {
            let off = r.below(m.len() as u64) as usize;
            let k = r.range(1, 6) as usize;
            for i in 0..k {
                if off + i < m.len() {
                    m[off + i] = r.u64() as u8;
                }
            }
        }
    }
    m
}

fn gen_cases(a: &Args) -> Vec<String> {
    let mut r = Rng::new(a.seed);
    let mut cases = known_reproducers();
    cases.extend(custom_type_cases(&mut r));
    cases.extend(inflated_count_cases());
    // (a) well-formed frames from the extracted encoder
    let nbase = (a.n / 60).max(50);
    let drv = std::env::var("VERIF_C08_DRIVER").unwrap_or_else(|_| concat!(env!("CARGO_MANIFEST_DIR"), "/../ocaml/c08/driver").into()); // checks/c08.py passes <ROOT>/ocaml/c08/driver
    let out = std::process::Command::new(&drv)
        .args(["gen", &a.seed.to_string(), &nbase.to_string()])
        .output()
        .expect("run ocaml/c08/driver gen");
    let gen_lines: Vec<Vec<String>> = String::from_utf8_lossy(&out.stdout)
        .lines()
        .map(|l| l.split_whitespace().map(|x| x.to_string()).collect())
        .collect();
    let base: Vec<(String, String, Vec<u8>)> = gen_lines
        .iter()
        .filter(|f| f.len() == 3)
        .map(|f| (f[0].clone(), f[1].clone(), unhex(&f[2])))
        .collect();
    assert!(!base.is_empty(), "driver gen produced nothing");
    // field-aware mutations made by the extracted encoder (one count / length / flag field at a boundary value)
    for f in gen_lines.iter().filter(|f| f.len() == 4 && f[0] == "F") {
        cases.push(format!("F {} {}n {}", f[1], f[2], f[3]));
    }
    // pairs PREPARED + Rows-without-metadata (cached result metadata), their cuts and mutations
    for f in gen_lines.iter().filter(|f| f.len() == 4 && f[0] == "P") {
        let (ft, v, st) = (&f[1], &f[2], unhex(&f[3]));
        cases.push(format!("P {} {}n {}", ft, v, hex_bytes(&st)));
        for _ in 0..8 {
            let k = r.below(st.len() as u64) as usize;
            cases.push(format!("P {} {}n {}", ft, v, hex_bytes(&st[..k])));
        }
        for _ in 0..24 {
            // mutate the second frame mostly (a damaged first frame only yields "pair none")
            let l1 = 9 + u32::from_be_bytes([st[5], st[6], st[7], st[8]]) as usize;
            let mut m = st.clone();
            if l1 < st.len() && r.chance(3, 4) {
                let tail = mutate(&mut r, &st[l1..]);
                m.truncate(l1);
                m.extend_from_slice(&tail);
            } else {
                m = mutate(&mut r, &st);
            }
            cases.push(format!("P {} {}n {}", ft, v, hex_bytes(&m)));
        }
    }
    let per = ((a.n as usize).saturating_sub(cases.len()) / base.len()).max(8);
    for (ft, v, f) in &base {
        let mode = format!("{}n", v);
        cases.push(format!("W {} {} {}", ft, mode, hex_bytes(f)));
        if f.len() > 300_000 {
            continue;
        }
        let big = f.len() > 4000;
        // (b) truncation points: all of them for frames of at most `budget` bytes (per / 8 + 2 = 9 at both tiers), else `budget` random ones (6 for frames above 4000 bytes)
        let budget = if big { 6 } else { per / 8 + 2 };
        if f.len() <= budget {
            for k in 0..f.len() {
                cases.push(format!("T {} {} {}", ft, mode, hex_bytes(&f[..k])));
            }
        } else {
            for _ in 0..budget {
                let k = r.below(f.len() as u64) as usize;
                cases.push(format!("T {} {} {}", ft, mode, hex_bytes(&f[..k])));
            }
        }
        // body cut with a consistent header length
        if f.len() > 9 {
            for _ in 0..(if big { 2 } else { per / 4 + 1 }) {
                let k = r.range(9, (f.len() - 1) as u64) as usize;
                let mut g = f[..k].to_vec();
                let l = (k - 9) as u32;
                g[5..9].copy_from_slice(&l.to_be_bytes());
                cases.push(format!("U {} {} {}", ft, mode, hex_bytes(&g)));
            }
        }
        // (c) mutations
        for _ in 0..(if big { 4 } else { per / 2 }) {
            let mut m = mutate(&mut r, f);
            if r.chance(1, 4) {
                m = mutate(&mut r, &m);
            }
            cases.push(format!("M {} {} {}", ft, mode, hex_bytes(&m)));
        }
        // compressed variants (real codec), also mutated and under the wrong / no codec
        if f.len() > 9 && !big && r.chance(1, 2) {
            let comp = if r.bool() { Compression::Lz4 } else { Compression::Snappy };
            let mut g = f[..9].to_vec();
            g[1] |= 1;
            if scylla_cql::frame::compress_append(&f[9..], comp, &mut g).is_ok() {
                let l = (g.len() - 9) as u32;
                g[5..9].copy_from_slice(&l.to_be_bytes());
                let c = if comp == Compression::Lz4 { 'l' } else { 's' };
                cases.push(format!("C {} {}{} {}", ft, v, c, hex_bytes(&g)));
                let other = *r.pick(&['n', 'l', 's']);
                cases.push(format!("C {} {}{} {}", ft, v, other, hex_bytes(&g)));
                for _ in 0..3 {
                    let m = mutate(&mut r, &g);
                    cases.push(format!("C {} {}{} {}", ft, v, c, hex_bytes(&m)));
                }
                // the compressed body cut, with a consistent header length
                if g.len() > 10 {
                    let k = r.range(9, (g.len() - 1) as u64) as usize;
                    let mut t = g[..k].to_vec();
                    let l = (k - 9) as u32;
                    t[5..9].copy_from_slice(&l.to_be_bytes());
                    cases.push(format!("C {} {}{} {}", ft, v, c, hex_bytes(&t)));
                }
            }
        }
    }
    // two frames on one stream through the chunked reader (kind Q): whole, cut, and with a damaged first frame
    for w in base.windows(2) {
        let ((ft, v, f1), (_, _, f2)) = (&w[0], &w[1]);
        if f1.len() + f2.len() > 4000 || f1.len() < 9 || (f1[1] & 1) == 1 {
            continue;
        }
        let mut st = f1.clone();
        st.extend_from_slice(f2);
        cases.push(format!("Q {} {}n {}", ft, v, hex_bytes(&st)));
        let k = r.range(1, (st.len() - 1) as u64) as usize;
        cases.push(format!("Q {} {}n {}", ft, v, hex_bytes(&st[..k])));
        let mut m = mutate(&mut r, f1);
        m.extend_from_slice(f2);
        cases.push(format!("Q {} {}n {}", ft, v, hex_bytes(&m)));
    }
    // (d) random bytes, plain and behind a valid header
    let nrand = (a.n / 10).max(100);
    for _ in 0..nrand {
        let len = match r.below(4) {
            0 => r.below(12),
            1 => r.below(40),
            _ => r.below(200),
        } as usize;
        let mut f = r.bytes(len);
        if r.chance(2, 3) {
            let op = *r.pick(&[0u8, 2, 3, 6, 8, 8, 8, 12, 14, 16]);
            f = frame((r.u64() as u8) & 0x0E, op, &f);
        }
        let ft = if r.bool() { FT0.to_string() } else { "rl:4321,mid:1".to_string() };
        cases.push(format!("R {} {}n {}", ft, if r.bool() { 1 } else { 2 }, hex_bytes(&f)));
    }
    // kind Z (wave-4 follow-up): WELL-FORMED frames with large, highly compressible bodies behind the real
    // Snappy / LZ4 encoders; fixed list (no seed): fills x lengths x shapes x codecs
    for (fill, period) in [(0u8, 1usize), (0x61, 1), (0xff, 1), (0x41, 2), (0x30, 7)] {
        for len in Z_LENGTHS {
            for shape in ["blob", "rows", "text", "error", "supported"] {
                if (shape == "error" && len > 65537) || (len > (1 << 20) && (period != 1 || shape == "text")) {
                    continue;
                }
                for c in ['s', 'l'] {
                    cases.push(format!("Z {} {}{} {:02x}.{}.{}.{}", FT0, if len % 2 == 0 { 2 } else { 1 }, c, fill, period, len, shape));
                }
            }
        }
    }
    // G: the same bodies (small ones) with the codec's length prefix corrupted to just below / above the
    // guard's threshold (claimed = R x available - 1, R x available + R ..): the guard model decides
    for (fill, len) in [(0u8, 1024usize), (0x61, 65536), (0, 65537), (0x41, 20000)] {
        for shape in ["blob", "rows", "supported"] {
            let Some(plain) = z_frame(&format!("{:02x}.1.{}.{}", fill, len, shape)) else { continue };
            for (c, comp) in [('s', Compression::Snappy), ('l', Compression::Lz4)] {
                let Some(g) = z_compressed(&plain, comp) else { continue };
                let avail = if c == 'l' { g.len() - 13 } else { g.len() - 9 };
                let rr = if c == 'l' { 255 } else { 32 };
                for claim in [rr * avail - 1, rr * avail, rr * avail + rr - 1, rr * avail + rr, 21 * avail, 22 * avail, 2 * rr * avail, u32::MAX as usize, 0] {
                    let mut m = g[..9].to_vec();
                    if c == 'l' {
                        m.extend_from_slice(&(claim as u32).to_be_bytes());
                        m.extend_from_slice(&g[13..]);
                    } else {
                        // replace snap's varint preamble by the varint of the claim
                        let mut k = 9;
                        while g[k] & 0x80 != 0 { k += 1; }
                        let mut v = claim as u64;
                        loop {
                            let b = (v & 0x7f) as u8;
                            v >>= 7;
                            if v == 0 { m.push(b); break; } else { m.push(b | 0x80); }
                        }
                        m.extend_from_slice(&g[k + 1..]);
                    }
                    let l = (m.len() - 9) as u32;
                    m[5..9].copy_from_slice(&l.to_be_bytes());
                    cases.push(format!("G {} 2{} {}", FT0, c, hex_bytes(&m)));
                }
            }
        }
    }
    // compression for the other kinds: the (mutated / cut / field-damaged / inflated-count) body behind a
    // VALID compression layer, so that the damage reaches the body decoders instead of the codec.  Every V
    // case, one in eight of M, U, F, S; the kind letter stays, the mode says which codec.
    let mut extra = vec![];
    for c in &cases {
        let k = c.as_bytes()[0];
        let take = match k {
            b'V' => true,
            b'M' | b'U' | b'F' | b'S' => r.chance(1, 8),
            _ => false,
        };
        if !take {
            continue;
        }
        let f: Vec<&str> = c.split(' ').collect();
        if f.len() != 4 || !f[2].ends_with('n') {
            continue;
        }
        let b = unhex(f[3]);
        // a complete uncompressed frame whose header announces exactly its body
        if b.len() <= 9 || b.len() > 100_000 || b[1] & 1 == 1 || u32::from_be_bytes([b[5], b[6], b[7], b[8]]) as usize != b.len() - 9 {
            continue;
        }
        let comp = if r.bool() { Compression::Lz4 } else { Compression::Snappy };
        let mut g = b[..9].to_vec();
        g[1] |= 1;
        if scylla_cql::frame::compress_append(&b[9..], comp, &mut g).is_ok() {
            let l = (g.len() - 9) as u32;
            g[5..9].copy_from_slice(&l.to_be_bytes());
            let m = format!("{}{}", &f[2][..1], if comp == Compression::Lz4 { 'l' } else { 's' });
            extra.push(format!("{} {} {} {}", f[0], f[1], m, hex_bytes(&g)));
        }
    }
    cases.extend(extra);
    cases
}

fn main() {
    let argv: Vec<String> = std::env::args().collect();
    if argv.len() >= 5 && argv[1] == "--child" {
        quiet_panics();
        child_main(&argv[2], argv[3].parse().unwrap(), argv[4].parse().unwrap(), argv.get(5).map(|s| s == "bigonly").unwrap_or(false));
        return;
    }
    let a = parse_args();
    let cases: Vec<String> = match &a.replay {
        Some(p) => read_cases(p),
        None => gen_cases(&a),
    };
    let infile = format!("{}.child.in", a.out);
    let timeout_s = if a.tier == "thorough" { 20 } else { 10 };
    let res = run_in_children(&cases, &infile, timeout_s, 6);
    let _ = std::fs::remove_file(&infile);
    let mut out = Out::create(&a.out);
    for (c, r) in cases.iter().zip(res.iter()) {
        out.case(c, if r.is_empty() { "notrun env-no-result m=0 t=0 s=-" } else { r });
    }
    out.finish();
}
