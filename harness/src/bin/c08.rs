//! temporary probe (will be replaced by the C08 runner)
use bytes::Bytes;
use scylla_cql::frame::protocol_features::ProtocolFeatures;
use scylla_cql::frame::response::{Response, ResponseOpcode};

fn rows_frame_custom(ty: &str) -> Vec<u8> {
    let mut b = vec![];
    b.extend_from_slice(&2i32.to_be_bytes()); // Rows
    b.extend_from_slice(&1i32.to_be_bytes()); // flags: global table spec
    b.extend_from_slice(&1i32.to_be_bytes()); // col count
    for s in ["ks", "t", "c"] {
        b.extend_from_slice(&(s.len() as u16).to_be_bytes());
        b.extend_from_slice(s.as_bytes());
    }
    b.extend_from_slice(&0u16.to_be_bytes()); // custom
    b.extend_from_slice(&(ty.len() as u16).to_be_bytes());
    b.extend_from_slice(ty.as_bytes());
    b.extend_from_slice(&0i32.to_be_bytes()); // rows count
    b
}

fn decode(body: Vec<u8>) -> String {
    let f = ProtocolFeatures::default();
    match Response::deserialize(&f, ResponseOpcode::Result, Bytes::from(body), None) {
        Err(e) => format!("err1 {e}"),
        Ok(r) => match r.deserialize_metadata() {
            Err(e) => format!("err2 {e}"),
            Ok(_) => "ok".to_string(),
        },
    }
}

fn main() {
    let a: Vec<String> = std::env::args().collect();
    let mode = a[1].as_str();
    if mode == "sizes" {
        use scylla_cql::frame::response::result::*;
        use std::mem::size_of;
        println!("ColumnType {} CowField {} ColumnSpec {} PkIdx {} String {} PayloadEntry {} MultimapEntry {} TableSpec {}",
            size_of::<ColumnType<'static>>(), size_of::<(std::borrow::Cow<'static, str>, ColumnType<'static>)>(),
            size_of::<ColumnSpec<'static>>(), size_of::<PartitionKeyIndex>(), size_of::<String>(),
            size_of::<(String, Bytes)>(), size_of::<(String, Vec<String>)>(), size_of::<TableSpec<'static>>());
        return;
    }
    if mode == "lz4" {
        let n: u32 = a[2].parse().unwrap();
        let mut body = n.to_be_bytes().to_vec();
        body.extend_from_slice(&[0x10, 0x41, 0, 0, 0]);
        let t0 = std::time::Instant::now();
        let r = scylla_cql::frame::parse_response_body_extensions(1, Some(scylla_cql::frame::Compression::Lz4), Bytes::from(body));
        println!("lz4 claimed={} -> {:?} in {:?}", n, r.map(|x| x.body.len()).map_err(|e| e.to_string()), t0.elapsed());
        let st = std::fs::read_to_string("/proc/self/status").unwrap();
        for l in st.lines() { if l.starts_with("VmPeak") || l.starts_with("VmHWM") { println!("{l}"); } }
        return;
    }
    let n: usize = a.get(2).map(|s| s.parse().unwrap()).unwrap_or(10);
    let ty = match mode {
        "open" => "ListType(".to_string(),
        "nest" => format!("{}Int32Type{}", "SetType(".repeat(n), ")".repeat(n)),
        "nestbad" => format!("{}Int32Type,Int32Type{}", "SetType(".repeat(n), ")".repeat(n)),
        "nestopen" => "SetType(".repeat(n),
        "expo" => "ListType(Int32Type,".repeat(n),
        "expo2" => format!("{}{}", "ListType(Int32Type,".repeat(n), ")".repeat(n)),
        _ => mode.to_string(),
    };
    let t0 = std::time::Instant::now();
    let h = std::thread::Builder::new()
        .stack_size(2 << 20)
        .spawn(move || {
            let s = decode(rows_frame_custom(&ty));
            s.chars().take(200).collect::<String>()
        })
        .unwrap();
    println!("{:?} in {:?}", h.join(), t0.elapsed());
}
