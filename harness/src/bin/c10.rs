//! C10 runner: a real Session against mocknode; the mock injects one connection fault per case
//! (cut at a byte offset with FIN/RST, garbage, bad version byte, unsolicited stream id, silent
//! stall) while N requests are in flight.  Records what every client future returned and the byte
//! level trace of every pool connection, for the extracted connection model (ocaml/c10/driver).
//!
//! case line:  F <nodes> <shards> <n> <j> <fault> <off> <pad> <delay> <idem> <prep> <late> <cancel> <aux> <seed>
//!   fault: none | fin | rst | ver<hexbyte> | unsol | stall | garb<hexbytes>
//!          | slow (no fault: requests from the j-th on are answered after 80 ms)
//!          | ccfin | ccrst (the CONTROL connection is cut while the requests are in flight)
//!          | burstrst | burstfin: <off> rounds; in each round <n> client tasks issue <j> requests one
//!            after the other and, <delay>*100 us after the start, the mock kills every pool
//!            connection of node 0 -- requests are being SUBMITTED at the instant the router ends
//!            (markers: 1 + (round*n + task)*j + k; res lists all of them)
//!          | split (no fault: the replies to the j-th..j+2-th request are written in pieces, header and
//!            body split across reads) | neg (frames on streams -1 and -7 precede the reply: ignored)
//!          | flagop | flagcomp (a READY frame / a frame with the compression flag on the request's own
//!            stream: that request fails, the connection lives)
//!          | dup (the reply is sent twice: the second copy is a frame nobody waits for)
//!          | short (the reply's length field announces <off%8+1> bytes less than follow: misframing)
//!          | corr (byte <off> of the reply frame's header -- version, flags, opcode, frame length: 7 of the 9
//!            header bytes, not the stream id --
//!            is XORed with a mask: in-frame corruption; the other replies are normal)
//!          | 2x<kind>: the whole scenario twice, the second fault hits the re-established connection
//!            (markers n+1..2n in the second phase)
//!   aux: <aux> requests of OTHER kinds (BATCH, PREPARE, paged iterator, USE) are in flight as well; for them
//!        only completion is recorded (aux=aok|aerr|hang,..)
//!   cancel: the last <cancel> client futures are dropped 3 ms after the start (orphaned stream ids)
//! observation (after '|'):
//!   res=<r1>,..,<rn>   r = ok:<marker>:<padlen>:<padok> | err:<class> | hang | cancelled
//!   pxb=<hex of the constant body prefix>  pool=<a|g|b><node>.<conn>@<ms>,.. (the mock's global order: STARTUP
//!   frame of a pool connection arrived, request frame arrived, a handshaken connection was closed/cut)  aux=..
//!   stall=<largest scheduling stall of the runner's own runtime during the case, ms>
//!   fu=ok|err|hang  ph=<probe requests of burst rounds that hung>  tmax=<ms>  bound=<ms>  px=<body prefix length>
//!   conns=<conn>;<conn>..   conn = <node>.<connid>:<ev>,<ev>..
//!     ev = i<stream>.<rid> request frame (rid = marker, or -k for handshake frames)
//!          k<stream>.<rid> keepalive OPTIONS
//!          o<hex> bytes the mock wrote | S stalled | F mock FIN | R mock RST | X client closed
//!          (k, S, F, R, X carry `@<ms since the requests were launched>`, for diagnosis only)
use scylla::client::execution_profile::ExecutionProfile;
use scylla::client::session::Session;
use scylla::client::session_builder::SessionBuilder;
use scylla::errors::{BrokenConnectionErrorKind, ExecutionError, RequestAttemptError};
use scylla::statement::Statement;
use scylla::statement::prepared::PreparedStatement;
use std::sync::{Arc, Mutex};
use std::time::{Duration, Instant};
use vh::mocknode::*;
use vh::*;

// generous against scheduling jitter: a keepalive answer that takes longer than the timeout although the
// mock answered at once would look like a fault the scenario did not inject
const KA_INTERVAL_MS: u64 = 400;
const KA_TIMEOUT_MS: u64 = 800;
/// generous completion bound: keepalive interval + timeout + margin for a loaded machine
const BOUND_MS: u64 = KA_INTERVAL_MS + KA_TIMEOUT_MS + 20_000;
const FOLLOWUP: i64 = 9999;

#[derive(Clone, Debug)]
struct Case {
    nodes: usize,
    shards: u16,
    n: usize,
    j: usize,
    fault: String,
    off: usize,
    pad: usize,
    delay: u64,
    idem: bool,
    prep: bool,
    late: u8,
    cancel: usize,
    aux: usize,
    seed: u64,
}

impl Case {
    fn line(&self) -> String {
        format!(
            "F {} {} {} {} {} {} {} {} {} {} {} {} {} {}",
            self.nodes, self.shards, self.n, self.j, self.fault, self.off, self.pad, self.delay, self.idem as u8, self.prep as u8, self.late, self.cancel, self.aux, self.seed
        )
    }
    fn parse(s: &str) -> Option<Case> {
        let f: Vec<&str> = s.split_whitespace().collect();
        if f.len() != 15 || f[0] != "F" {
            return None;
        }
        Some(Case {
            nodes: f[1].parse().ok()?,
            shards: f[2].parse().ok()?,
            n: f[3].parse().ok()?,
            j: f[4].parse().ok()?,
            fault: f[5].to_string(),
            off: f[6].parse().ok()?,
            pad: f[7].parse().ok()?,
            delay: f[8].parse().ok()?,
            idem: f[9] == "1",
            prep: f[10] == "1",
            late: f[11].parse().ok()?,
            cancel: f[12].parse().ok()?,
            aux: f[13].parse().ok()?,
            seed: f[14].parse().ok()?,
        })
    }
}

fn pad_len(c: &Case, marker: i64) -> usize {
    if c.pad >= 100 {
        // the same padding for every request: every response frame has the same, known length
        return c.pad - 100;
    }
    (c.pad + 7 * (marker as usize)) % 61
}
fn echo_frame(c: &Case, marker: i64, stream: i16) -> Frame {
    let Action::Rows(r) = echo(c, marker) else { unreachable!() };
    Frame::response(stream, op::RESULT, types::body_result_rows(&r, false))
}
fn cell_for(c: &Case, marker: i64) -> Vec<u8> {
    let mut v = marker.to_be_bytes().to_vec();
    let p = pad_len(c, marker);
    v.extend((0..p).map(|i| ((marker as usize * 31 + i) % 251) as u8));
    v
}
fn echo(c: &Case, marker: i64) -> Action {
    Action::Rows(RowsSpec::new(vec![ColSpec::new("ks", "t", "c", CqlType::Blob)], vec![vec![Some(cell_for(c, marker))]]).with_meta(MetaMode::Full))
}
fn hexdec(s: &str) -> Vec<u8> {
    (0..s.len() / 2).map(|i| u8::from_str_radix(&s[2 * i..2 * i + 2], 16).unwrap_or(0)).collect()
}

fn marker_of(ctx_text: Option<&str>, params: Option<&QueryParams>, prep: bool) -> Option<i64> {
    if prep {
        params?.values.first()?.as_bytes().and_then(uncell::bigint)
    } else {
        ctx_text?.rsplit("m = ").next()?.trim().parse().ok()
    }
}

/// Scheduling stalls of this runner's own runtime: (ms since process start, lateness in ms) of a 10 ms
/// ticker, recorded when the tick came more than 20 ms late.  A case during which the runtime was starved
/// reports it (`stall=<ms>`), so that a broken correspondence caused by starvation is a counted not-run.
static STALLS: Mutex<Vec<(u64, u64)>> = Mutex::new(Vec::new());
static T_PROC: std::sync::OnceLock<Instant> = std::sync::OnceLock::new();
fn now_ms() -> u64 {
    T_PROC.get_or_init(Instant::now).elapsed().as_millis() as u64
}
async fn stall_monitor() {
    loop {
        let t = Instant::now();
        tokio::time::sleep(Duration::from_millis(10)).await;
        let late = (t.elapsed().as_millis() as u64).saturating_sub(10);
        if late > 20 {
            STALLS.lock().unwrap().push((now_ms(), late));
        }
    }
}
fn max_stall(from_ms: u64, to_ms: u64) -> u64 {
    STALLS.lock().unwrap().iter().filter(|(t, l)| *t >= from_ms && t.saturating_sub(*l) <= to_ms).map(|x| x.1).max().unwrap_or(0)
}

struct HState {
    arrivals: usize,
    fault_conn: Option<u64>,
    /// connection that got bytes which MAY break it (corr): its close is awaited if requests failed
    watch_conn: Option<u64>,
}

fn err_class(e: &ExecutionError) -> String {
    match e {
        ExecutionError::LastAttemptError(RequestAttemptError::BrokenConnectionError(b)) => {
            let k = match b.downcast_ref::<BrokenConnectionErrorKind>() {
                Some(BrokenConnectionErrorKind::KeepaliveTimeout(_)) => "KeepaliveTimeout",
                Some(BrokenConnectionErrorKind::KeepaliveRequestError(_)) => "KeepaliveRequestError",
                Some(BrokenConnectionErrorKind::FrameHeaderParseError(_)) => "FrameHeaderParseError",
                Some(BrokenConnectionErrorKind::CqlEventHandlingError(_)) => "CqlEventHandlingError",
                Some(BrokenConnectionErrorKind::UnexpectedStreamId(_)) => "UnexpectedStreamId",
                Some(BrokenConnectionErrorKind::WriteError(_)) => "WriteError",
                Some(BrokenConnectionErrorKind::TooManyOrphanedStreamIds(_)) => "TooManyOrphanedStreamIds",
                Some(BrokenConnectionErrorKind::ChannelError) => "ChannelError",
                _ => "Other",
            };
            format!("broken.{}", k)
        }
        ExecutionError::LastAttemptError(a) => {
            let d = format!("{:?}", a);
            format!("attempt.{}", d.split(|c: char| !c.is_alphanumeric()).next().unwrap_or("x"))
        }
        ExecutionError::ConnectionPoolError(_) => "pool".into(),
        ExecutionError::RequestTimeout(_) => "timeout".into(),
        ExecutionError::EmptyPlan => "emptyplan".into(),
        _ => {
            let d = format!("{:?}", e);
            format!("other.{}", d.split(|c: char| !c.is_alphanumeric()).next().unwrap_or("x"))
        }
    }
}

async fn one_request(session: &Session, c: &Case, prepared: Option<&PreparedStatement>, marker: i64) -> String {
    let res = match prepared {
        Some(p) => session.execute_unpaged(p, (marker,)).await,
        None => {
            let mut st = Statement::new(format!("SELECT c FROM ks.t WHERE m = {}", marker));
            st.set_is_idempotent(c.idem);
            session.query_unpaged(st, ()).await
        }
    };
    match res {
        Ok(r) => match r.into_rows_result() {
            Ok(rows) => match rows.single_row::<(Vec<u8>,)>() {
                Ok((b,)) if b.len() >= 8 => {
                    let m = i64::from_be_bytes(b[..8].try_into().unwrap());
                    let ok = b == cell_for(c, m);
                    format!("ok:{}:{}:{}", m, b.len() - 8, ok as u8)
                }
                // a value WAS handed to the caller, and it is not one of ours
                Ok(_) => "ok:-1:0:0".into(),
                // the driver refused to deserialize the row: an error, no bytes handed over
                Err(_) => "err:rows.Deserialization".into(),
            },
            Err(_) => "err:rows.NotRows".into(),
        },
        Err(e) => format!("err:{}", err_class(&e)),
    }
}

/// Rounds of concurrent submitters with a connection kill in the middle (fault burstrst/burstfin).
/// Returns the outcome of every request (marker order) and the largest single-request latency.
async fn burst_rounds(cluster: &MockCluster, session: &Arc<Session>, c: &Case, prepared: Option<&PreparedStatement>) -> (Vec<String>, u64, u64) {
    let mut probe_hangs = 0u64;
    let (tasks, per_task, rounds) = (c.n, c.j.max(1), c.off.max(1));
    let total = rounds * tasks * per_task;
    // a request that was never started (its task hung or was not reached) counts as cancelled
    let results: Arc<Mutex<Vec<(String, u64)>>> = Arc::new(Mutex::new(vec![("cancelled".to_string(), 0); total]));
    let how = if c.fault == "burstfin" { CutKind::Fin } else { CutKind::Rst };
    for round in 0..rounds {
        // the pool of node 0 must be connected again before the next burst
        let tw = Instant::now();
        while tw.elapsed() < Duration::from_millis(BOUND_MS) {
            let up = cluster.connections(Some(0)).iter().any(|x| x.registered.is_empty() && x.requests > 0 || x.registered.is_empty());
            // a probe that does not complete is a hang like any other (no silent retry)
            let probe = tokio::time::timeout(Duration::from_millis(BOUND_MS), one_request(session, c, prepared, FOLLOWUP)).await;
            if probe.is_err() {
                probe_hangs += 1;
                break;
            }
            if up && matches!(&probe, Ok(r) if r.starts_with("ok:")) {
                break;
            }
            tokio::time::sleep(Duration::from_millis(10)).await;
        }
        let mut handles = Vec::new();
        for t in 0..tasks {
            let s = session.clone();
            let cc = c.clone();
            let p = prepared.cloned();
            let results = results.clone();
            handles.push(tokio::spawn(async move {
                for k in 0..per_task {
                    let idx = (round * tasks + t) * per_task + k;
                    results.lock().unwrap()[idx] = ("hang".to_string(), BOUND_MS + 1);
                    let t1 = Instant::now();
                    let r = one_request(&s, &cc, p.as_ref(), (idx + 1) as i64).await;
                    results.lock().unwrap()[idx] = (r, t1.elapsed().as_millis() as u64);
                }
            }));
        }
        // kill while the submitters are running
        let until = Instant::now() + Duration::from_micros(c.delay * 100);
        while Instant::now() < until {
            tokio::task::yield_now().await;
        }
        for ci in cluster.connections(Some(0)) {
            if ci.registered.is_empty() {
                cluster.close_connection(0, ci.conn_id, how);
            }
        }
        let t0 = Instant::now();
        for h in handles {
            let left = Duration::from_millis(BOUND_MS).saturating_sub(t0.elapsed());
            let abort = h.abort_handle();
            if tokio::time::timeout(left, h).await.is_err() {
                abort.abort();
            }
        }
    }
    let r = results.lock().unwrap();
    (r.iter().map(|x| x.0.clone()).collect(), r.iter().map(|x| x.1).max().unwrap_or(0), probe_hangs)
}

async fn run_case(c: Case) -> String {
    let case_start_ms = now_ms();
    let twice = c.fault.starts_with("2x");
    let mut c = c;
    if twice {
        c.fault = c.fault[2..].to_string();
    }
    let c = c;
    let table = TableDef::new("t", &[("m", CqlType::BigInt)], &[], &[("c", CqlType::Blob)]);
    let mut spec = ClusterSpec::uniform("c10", &[("dc1", c.nodes)], 1, 4, c.shards).with_keyspace(KeyspaceDef::simple("ks", 1).with_table(table.clone()));
    spec.options.tablets_ext = false;
    let cluster = match MockCluster::start(spec).await {
        Ok(cl) => cl,
        Err(e) => return format!("setup-error start-cluster {}", e),
    };
    let profile = ExecutionProfile::builder().request_timeout(None).build();
    let session = match tokio::time::timeout(
        Duration::from_secs(20),
        SessionBuilder::new()
            .known_node_addr(cluster.contact_point(0))
            .local_ip_address(Some(cluster.client_ip()))
            .connection_timeout(Duration::from_secs(5))
            .keepalive_interval(Duration::from_millis(KA_INTERVAL_MS))
            .keepalive_timeout(Duration::from_millis(KA_TIMEOUT_MS))
            .default_execution_profile_handle(profile.into_handle())
            .build(),
    )
    .await
    {
        Ok(Ok(s)) => Arc::new(s),
        Ok(Err(e)) => return format!("setup-error session {:?}", e),
        Err(_) => return "setup-error session-timeout".into(),
    };
    // wait for the pools: per node max(1, shards) connections + 1 control connection
    let want = c.nodes * (c.shards.max(1) as usize) + 1;
    let t = Instant::now();
    // (handshakes completed, not just TCP connections accepted: a pool connection that finishes its
    // handshake later would look like a replacement in the pool-level event sequence)
    while (cluster.connections(None).len() < want
        || cluster.trace_snapshot().iter().filter(|e| e.is_in(op::STARTUP)).count() < want)
        && t.elapsed() < Duration::from_secs(10)
    {
        tokio::time::sleep(Duration::from_millis(5)).await;
    }
    let select = "SELECT c FROM ks.t WHERE m = ?";
    let prepared = if c.prep {
        cluster.on_prepare(select, table.prepared("ks", &["m"], &["c"]));
        match session.prepare(select).await {
            Ok(mut p) => {
                p.set_is_idempotent(c.idem);
                Some(p)
            }
            Err(e) => return format!("setup-error prepare {:?}", e),
        }
    } else {
        None
    };

    // ---- the scripted fault --------------------------------------------------------------
    let hs = Arc::new(Mutex::new(HState { arrivals: 0, fault_conn: None, watch_conn: None }));
    {
        let hs = hs.clone();
        let c = c.clone();
        cluster.set_handler(Some(Arc::new(move |ctx: &ReqCtx| {
            if ctx.is_system || !(ctx.opcode == op::QUERY || ctx.opcode == op::EXECUTE) {
                return None;
            }
            let marker = marker_of(ctx.text.as_deref(), ctx.params.as_ref(), c.prep)?;
            if marker == FOLLOWUP || ctx.node != 0 {
                return Some(vec![echo(&c, marker)]);
            }
            if c.fault == "corr" {
                let mut st = hs.lock().unwrap();
                let k = st.arrivals;
                st.arrivals += 1;
                if k != c.j {
                    return Some(vec![echo(&c, marker)]);
                }
                st.watch_conn = Some(ctx.conn_id);
                let mut b = echo_frame(&c, marker, ctx.stream).encode();
                // the header without the stream id: version, flags, opcode, the four length bytes.  The body
                // is left alone: a server may legitimately send other metadata / cells, and the client
                // hands over what the bytes say
                let allowed: Vec<usize> = vec![0, 1, 4, 5, 6, 7, 8];
                let at = allowed[c.off % allowed.len()];
                b[at] ^= 1 + (c.seed % 255) as u8;
                return Some(vec![Action::Delay(c.delay), Action::Garbage(b)]);
            }
            let mut st = hs.lock().unwrap();
            if let Some(fc) = st.fault_conn {
                if ctx.conn_id != fc {
                    return Some(vec![echo(&c, marker)]);
                }
                return Some(match c.late {
                    0 => vec![Action::NoReply],
                    _ => vec![Action::Delay(400), echo(&c, marker)],
                });
            }
            let k = st.arrivals;
            st.arrivals += 1;
            if k < c.j || c.fault == "none" || c.fault.starts_with("cc") || c.fault.starts_with("burst") {
                return Some(vec![echo(&c, marker)]);
            }
            if c.fault == "slow" {
                return Some(vec![Action::Delay(80), echo(&c, marker)]);
            }
            // kinds that leave the connection alive
            match c.fault.as_str() {
                // (only three replies are written in pieces: the pauses block the mock's connection loop,
                // and a keepalive answer must not be starved by them)
                "split" if k >= c.j + 3 => return Some(vec![echo(&c, marker)]),
                "split" => {
                    let len = echo_frame(&c, marker, ctx.stream).encode().len();
                    let offs = vec![1 + c.off % 8, 9, 9 + 1 + c.off % (len - 10), len - 1];
                    return Some(vec![Action::Delay(c.delay), Action::Chunked(offs, 1 + (c.off % 3) as u64), echo(&c, marker)]);
                }
                "neg" => {
                    let mut b = Frame::response(-1, op::EVENT, vec![0, 1, 2]).encode();
                    b.extend(Frame::response(-7, op::RESULT, vec![9; 5]).encode());
                    b.extend(echo_frame(&c, marker, ctx.stream).encode());
                    return Some(vec![Action::Delay(c.delay), Action::Garbage(b)]);
                }
                "flagop" if k == c.j => {
                    return Some(vec![Action::Delay(c.delay), Action::Garbage(Frame::response(ctx.stream, op::READY, vec![]).encode())]);
                }
                "flagcomp" if k == c.j => {
                    let mut f = echo_frame(&c, marker, ctx.stream);
                    f.flags = 0x01;
                    return Some(vec![Action::Delay(c.delay), Action::Garbage(f.encode())]);
                }
                "flagop" | "flagcomp" => return Some(vec![echo(&c, marker)]),
                _ => {}
            }
            st.fault_conn = Some(ctx.conn_id);
            let mut a = vec![Action::Delay(c.delay)];
            match c.fault.as_str() {
                "fin" => a.extend([Action::CutAt(c.off, CutKind::Fin), echo(&c, marker)]),
                "rst" => a.extend([Action::CutAt(c.off, CutKind::Rst), echo(&c, marker)]),
                "unsol" => a.extend([Action::UnsolicitedStream(30000 + (c.off % 2000) as i16), echo(&c, marker)]),
                "stall" => a.push(Action::Stall),
                "dup" => {
                    let mut b = echo_frame(&c, marker, ctx.stream).encode();
                    b.extend(b.clone());
                    a.push(Action::Garbage(b));
                }
                "short" => {
                    let mut b = echo_frame(&c, marker, ctx.stream).encode();
                    let l = u32::from_be_bytes([b[5], b[6], b[7], b[8]]) - (1 + (c.off % 8) as u32);
                    b[5..9].copy_from_slice(&l.to_be_bytes());
                    a.push(Action::Garbage(b));
                }
                f if f.starts_with("ver") => a.extend([Action::FrameVersion(u8::from_str_radix(&f[3..], 16).unwrap_or(0x85)), echo(&c, marker)]),
                f if f.starts_with("garb") => a.push(Action::Garbage(hexdec(&f[4..]))),
                _ => a.push(echo(&c, marker)),
            }
            Some(a)
        })));
    }

    // ---- N requests in flight -------------------------------------------------------------
    let t0 = Instant::now();
    let t0_ns = cluster.now_ns();
    let mut res = Vec::new();
    let mut tmax = 0u64;
    let mut probe_hangs = 0u64;
    if c.fault.starts_with("burst") {
        let (r, t, ph) = burst_rounds(&cluster, &session, &c, prepared.as_ref()).await;
        res = r;
        tmax = t;
        probe_hangs = ph;
    }
    let mut aux_res: Vec<String> = Vec::new();
    let mut fu = "ok".to_string();
    for phase in 0..(if twice { 2usize } else { 1 }) {
    if phase == 1 {
        // second phase: the fault is armed again and hits the re-established connection
        let mut st = hs.lock().unwrap();
        st.arrivals = 0;
        st.fault_conn = None;
        st.watch_conn = None;
    }
    let tp = Instant::now();
    let mut handles = Vec::new();
    for i in 0..(if c.fault.starts_with("burst") { 0 } else { c.n }) {
        let s = session.clone();
        let cc = c.clone();
        let p = prepared.clone();
        let marker = (phase * c.n + i + 1) as i64;
        handles.push(tokio::spawn(async move {
            let r = one_request(&s, &cc, p.as_ref(), marker).await;
            (r, tp.elapsed().as_millis() as u64)
        }));
    }
    // requests of other kinds in flight at the fault: only their completion is recorded
    let mut aux_handles = Vec::new();
    for a in 0..c.aux {
        let s = session.clone();
        let kind = (a + c.seed as usize) % 4;
        let am = 5000 + (phase * c.aux + a) as i64;
        aux_handles.push(tokio::spawn(async move {
            let ok = match kind {
                0 => {
                    let mut b = scylla::statement::batch::Batch::default();
                    b.append_statement(format!("INSERT INTO ks.t (m, c) VALUES ({}, 0x00)", am).as_str());
                    b.append_statement("INSERT INTO ks.t (m, c) VALUES (0, 0x01)");
                    s.batch(&b, ((), ())).await.is_ok()
                }
                1 => s.prepare(format!("SELECT c FROM ks.t WHERE m = {} AND c = ?", am)).await.is_ok(),
                2 => match s.query_iter(format!("SELECT c FROM ks.t WHERE m = {}", am), ()).await {
                    Ok(it) => {
                        use futures::StreamExt;
                        match it.rows_stream::<(Vec<u8>,)>() {
                            Ok(mut st) => {
                                let mut ok = true;
                                while let Some(r) = st.next().await {
                                    ok &= r.is_ok();
                                }
                                ok
                            }
                            Err(_) => false,
                        }
                    }
                    Err(_) => false,
                },
                _ => s.use_keyspace("ks", false).await.is_ok(),
            };
            if ok { "aok" } else { "aerr" }
        }));
    }
    if c.fault.starts_with("cc") {
        tokio::time::sleep(Duration::from_millis(c.delay)).await;
        let how = if c.fault == "ccfin" { CutKind::Fin } else { CutKind::Rst };
        for ci in cluster.connections(None) {
            if !ci.registered.is_empty() {
                cluster.close_connection(ci.node, ci.conn_id, how);
            }
        }
    }
    let ncancel = c.cancel.min(handles.len());
    if ncancel > 0 {
        tokio::time::sleep(Duration::from_millis(3)).await;
        for h in handles.iter().skip(handles.len() - ncancel) {
            h.abort();
        }
    }
    for h in aux_handles {
        let left = Duration::from_millis(BOUND_MS).saturating_sub(tp.elapsed());
        let abort = h.abort_handle();
        match tokio::time::timeout(left, h).await {
            Ok(Ok(r)) => aux_res.push(r.into()),
            Ok(Err(_)) => aux_res.push("aerr".into()),
            Err(_) => {
                abort.abort();
                aux_res.push("hang".into());
            }
        }
    }
    for h in handles {
        let left = Duration::from_millis(BOUND_MS).saturating_sub(tp.elapsed());
        let abort = h.abort_handle();
        match tokio::time::timeout(left, h).await {
            Ok(Ok((r, t))) => {
                tmax = tmax.max(t);
                res.push(r);
            }
            Ok(Err(e)) if e.is_cancelled() => res.push("cancelled".into()),
            Ok(Err(_)) => res.push("err:panic".into()),
            Err(_) => {
                abort.abort();
                tmax = BOUND_MS + 1;
                res.push("hang".into());
            }
        }
    }
    // ---- the session must keep working ----------------------------------------------------
    let tf = Instant::now();
    let mut fu_phase = "err".to_string();
    while tf.elapsed() < Duration::from_millis(BOUND_MS) {
        // a follow-up request that does not complete is a hang like any other (no silent retry)
        match tokio::time::timeout(Duration::from_millis(BOUND_MS), one_request(&session, &c, prepared.as_ref(), FOLLOWUP)).await {
            Ok(r) if r.starts_with(&format!("ok:{}:", FOLLOWUP)) => {
                fu_phase = "ok".into();
                break;
            }
            Ok(_) => {}
            Err(_) => {
                fu_phase = "hang".into();
                break;
            }
        }
        tokio::time::sleep(Duration::from_millis(15)).await;
    }
    if fu_phase != "ok" {
        fu = fu_phase;
    }
    // let the faulted connection's close reach the mock (needed to attribute a keepalive timeout)
    let fault_conn = {
        let st = hs.lock().unwrap();
        st.fault_conn.or(if res.iter().any(|r| r.starts_with("err:broken")) { st.watch_conn } else { None })
    };
    if let Some(fc) = fault_conn {
        let tw = Instant::now();
        while cluster.connections(Some(0)).iter().any(|x| x.conn_id == fc) && tw.elapsed() < Duration::from_secs(10) {
            tokio::time::sleep(Duration::from_millis(5)).await;
        }
    }
    if fu != "ok" {
        break;
    }
    } // phases
    let _ = t0;
    let trace = cluster.drain_trace();
    // the mock resets every connection first: no TIME_WAIT sockets are left behind
    cluster.shutdown();
    drop(session);

    // ---- encode the observation ----------------------------------------------------------
    let px = {
        let Action::Rows(r) = echo(&c, 1) else { unreachable!() };
        types::body_result_rows(&r, false).len() - 4 - cell_for(&c, 1).len()
    };
    let control: std::collections::HashSet<u64> = trace.iter().filter(|e| e.is_in(op::REGISTER)).map(|e| e.conn_id).collect();
    let pxb = {
        let Action::Rows(r) = echo(&c, 1) else { unreachable!() };
        hex_bytes(&types::body_result_rows(&r, false)[..px])
    };
    let nmarkers = res.len() as i64;
    // pool-level events in the mock's global order: a = handshake done (STARTUP answered), g = a request
    // frame arrived, b = the mock logged Close for a connection that had completed its handshake (whoever
    // closed it; a stall alone is no b, a connection that never started gets none)
    let mut pool: Vec<String> = Vec::new();
    let mut broke: std::collections::HashSet<u64> = std::collections::HashSet::new();
    let mut conns: Vec<(usize, u64, Vec<String>, bool, i64)> = Vec::new(); // node, id, events, started, next synthetic rid
    for e in &trace {
        if control.contains(&e.conn_id) {
            continue;
        }
        let idx = match conns.iter().position(|x| x.1 == e.conn_id) {
            Some(i) => i,
            None => {
                conns.push((e.node, e.conn_id, Vec::new(), false, -1));
                conns.len() - 1
            }
        };
        let cn = &mut conns[idx];
        match &e.ev {
            Ev::Open { .. } => {}
            Ev::In { stream, opcode, body, .. } => {
                let marker = match *opcode {
                    op::QUERY => wire::decode_query(body).ok().and_then(|q| marker_of(Some(&q.text), Some(&q.params), false)),
                    op::EXECUTE => wire::decode_execute(body, false).ok().and_then(|x| marker_of(None, Some(&x.params), true)),
                    _ => None,
                };
                let ka = *opcode == op::OPTIONS && cn.3;
                if *opcode == op::STARTUP {
                    cn.3 = true;
                    pool.push(format!("a{}.{}@{}", e.node, e.conn_id, e.t_ns / 1_000_000));
                } else if matches!(*opcode, op::QUERY | op::EXECUTE | op::BATCH | op::PREPARE) {
                    pool.push(format!("g{}.{}@{}", e.node, e.conn_id, e.t_ns / 1_000_000));
                }
                let rid = match marker {
                    // probes / follow-ups may be repeated: they get synthetic ids like handshake frames
                    Some(m) if m >= 1 && m <= nmarkers && !(c.prep && *opcode == op::QUERY) => m,
                    _ => {
                        let r = cn.4;
                        cn.4 -= 1;
                        r
                    }
                };
                let at = if ka { format!("@{}", (e.t_ns.saturating_sub(t0_ns)) / 1_000_000) } else { String::new() };
                cn.2.push(format!("{}{}.{}{}", if ka { "k" } else { "i" }, stream, rid, at));
            }
            Ev::Out { version, flags, stream, opcode, body, written } => {
                let enc = Frame { version: *version, flags: *flags, stream: *stream, opcode: *opcode, body: body.clone() }.encode();
                cn.2.push(format!("o{}", hex_bytes(&enc[..(*written).min(enc.len())])));
            }
            Ev::RawOut { bytes } => cn.2.push(format!("o{}", hex_bytes(bytes))),
            Ev::RawFillOut { .. } => {}
            // (a stall is not a break yet: the client notices at its keepalive timeout and closes -> X)
            Ev::Stalled => cn.2.push(format!("S@{}", (e.t_ns.saturating_sub(t0_ns)) / 1_000_000)),
            Ev::Close { by } => {
                // (only a connection that took part in the pool: one whose handshake was abandoned never did)
                if cn.3 && broke.insert(e.conn_id) {
                    pool.push(format!("b{}.{}@{}", e.node, e.conn_id, e.t_ns / 1_000_000));
                }
                cn.2.push(format!(
                "{}@{}",
                match by {
                    CloseBy::Client => "X",
                    CloseBy::MockFin => "F",
                    CloseBy::MockRst => "R",
                    CloseBy::Shutdown => "X",
                },
                (e.t_ns.saturating_sub(t0_ns)) / 1_000_000
                ))
            }
        }
    }
    let conns_s: Vec<String> = conns.iter().map(|c| format!("{}.{}:{}", c.0, c.1, if c.2.is_empty() { "-".to_string() } else { c.2.join(",") })).collect();
    format!(
        "res={} stall={} fu={} ph={} aux={} tmax={} bound={} px={} pxb={} pool={} conns={}",
        res.join(","),
        max_stall(case_start_ms, now_ms()),
        fu,
        probe_hangs,
        if aux_res.is_empty() { "-".to_string() } else { aux_res.join(",") },
        tmax,
        BOUND_MS,
        px,
        pxb,
        if pool.is_empty() { "-".to_string() } else { pool.join(",") },
        if conns_s.is_empty() { "-".to_string() } else { conns_s.join(";") }
    )
}

fn gen_cases(seed: u64, n: u64, thorough: bool) -> Vec<Case> {
    let mut r = Rng::new(seed);
    let mut v = Vec::new();
    let base = |r: &mut Rng| Case {
        nodes: 1,
        shards: 0,
        n: 3,
        j: 1,
        fault: "fin".into(),
        off: 0,
        pad: 3,
        delay: 2,
        idem: false,
        prep: false,
        late: 0,
        cancel: 0,
        aux: 0,
        seed: r.below(1 << 30),
    };
    // (a) every cut offset of a small script: header bytes 0..8, every body offset, between frames
    // frame of marker 2 with pad 3: body = 28 + 4 + 8 + (3+14)%61
    // every response frame of these cases has the same length (pad >= 100 = constant padding of 17),
    // whichever request happens to arrive second
    let frame_len = 9 + 28 + 4 + 8 + 17;
    let _ = thorough;
    for kind in ["fin", "rst"] {
        for off in 0..=frame_len + 1 {
            let mut c = base(&mut r);
            c.fault = kind.into();
            c.off = off;
            c.pad = 117;
            c.prep = off % 2 == 1;
            v.push(c);
        }
    }
    // (b) every fault kind on the small script, both request kinds
    // (b'') in-frame corruption at every corruptible offset, two masks; second fault on the re-established
    // connection; other request kinds in flight
    for off in 0..7usize {
        for k in 0..3u64 {
            let mut c = base(&mut r);
            c.fault = "corr".into();
            c.off = off;
            c.pad = 117;
            c.seed = c.seed / 4 * 4 + k * 85;
            c.prep = off % 2 == 0;
            v.push(c);
        }
    }
    for fault in ["2xfin", "2xrst", "2xunsol", "2xstall", "2xver85", "2xdup"] {
        for prep in [false, true] {
            let mut c = base(&mut r);
            c.fault = fault.into();
            c.off = 5 + 7 * (prep as usize);
            c.prep = prep;
            c.n = 4;
            v.push(c);
        }
    }
    for fault in ["fin", "rst", "stall", "unsol", "garb840000010800ffffff0001", "none"] {
        for aux in [2usize, 4] {
            let mut c = base(&mut r);
            c.fault = fault.into();
            c.off = 11;
            c.aux = aux;
            c.n = 4;
            v.push(c);
        }
    }
    for fault in ["none", "slow", "ccfin", "ccrst", "split", "neg", "flagop", "flagcomp", "dup", "short", "unsol", "stall", "ver85", "ver04", "ver83", "ver05", "garb00000000000000000000", "garb8400000177000000", "garb84", "garb840000010800ffffff0001", "garbffffffffffffffffffffffff"] {
        for prep in [false, true] {
            let mut c = base(&mut r);
            c.fault = fault.into();
            c.prep = prep;
            v.push(c);
        }
    }
    // (b') bursts of submitters with a kill in the middle: the submit/teardown race
    // (measured against the router before /repo bbe7c96: ~2.6 % of such cases catch a stranded request)
    let nburst = (n / 5).max(4);
    for i in 0..nburst {
        let mut c = base(&mut r);
        c.fault = if i % 6 == 5 { "burstfin".into() } else { "burstrst".into() };
        c.n = *r.pick(&[4usize, 8, 16, 16, 32]);
        c.j = r.range(3, 8) as usize;
        c.off = r.range(6, 12) as usize;
        c.delay = r.below(8);
        // one node: every connection lives about one round, which keeps the (quadratic) replay of a
        // connection trace through the extracted model cheap
        c.nodes = 1;
        c.shards = 0;
        c.prep = r.bool();
        c.pad = r.below(61) as usize;
        v.push(c);
    }
    // (c) random: 1..50 in flight, any j, any fault, 1-2 nodes, with and without shards
    while (v.len() as u64) < n {
        let mut c = base(&mut r);
        c.n = match r.below(4) {
            0 => r.range(1, 4) as usize,
            1 => r.range(5, 20) as usize,
            2 => r.range(21, 50) as usize,
            _ => *r.pick(&[1usize, 2, 50]),
        };
        c.j = r.below(c.n as u64) as usize;
        c.nodes = if r.chance(1, 4) { 2 } else { 1 };
        c.shards = if r.chance(1, 4) { 2 } else { 0 };
        c.pad = r.below(61) as usize;
        c.delay = *r.pick(&[0u64, 0, 1, 3, 10, 30]);
        c.idem = r.chance(1, 3);
        c.prep = r.bool();
        c.late = r.below(2) as u8;
        let maxoff = 9 + 28 + 4 + 8 + 61 + 2;
        c.off = match r.below(4) {
            0 => r.below(10) as usize,
            1 => 9 + r.below(4) as usize,
            _ => r.below(maxoff as u64) as usize,
        };
        c.cancel = if r.chance(1, 5) { r.range(1, c.n as u64) as usize } else { 0 };
        c.aux = if r.chance(1, 6) { r.range(1, 4) as usize } else { 0 };
        c.fault = match r.below(25) {
            22 => "corr".into(),
            23 | 24 => format!("2x{}", *r.pick(&["fin", "rst", "unsol", "stall", "ver85", "dup", "short"])),
            18 => "split".into(),
            19 => (*r.pick(&["neg", "flagop", "flagcomp"])).into(),
            20 => "dup".into(),
            21 => "short".into(),
            16 => "slow".into(),
            17 => (*r.pick(&["ccfin", "ccrst"])).into(),
            0..=3 => "fin".into(),
            4..=7 => "rst".into(),
            8 => "unsol".into(),
            9 => "stall".into(),
            10 => format!("ver{:02x}", *r.pick(&[0x85u8, 0x04, 0x83, 0x05, 0x00, 0xff, 0x44])),
            11 => "none".into(),
            12 => {
                // well-formed header, unknown opcode
                let op = *r.pick(&[0x01u8, 0x04, 0x05, 0x07, 0x09, 0x0a, 0x0b, 0x0d, 0x0f, 0x11, 0x77, 0xff]);
                format!("garb84{:02x}{:04x}{:02x}{:08x}", r.below(256), r.below(0x8000), op, r.below(64))
            }
            13 => {
                // well-formed RESULT header announcing more bytes than follow: the reader waits, keepalive decides
                format!("garb8400{:04x}08{:08x}", r.below(0x8000), 1000 + r.below(100000))
            }
            14 => {
                let l = r.range(1, 8) as usize;
                format!("garb{}", hex_bytes(&r.bytes(l)))
            }
            _ => {
                let l = r.range(9, 40) as usize;
                format!("garb{}", hex_bytes(&r.bytes(l)))
            }
        };
        v.push(c);
    }
    v.truncate(n as usize);
    v
}

fn main() {
    let args = parse_args();
    let thorough = args.tier == "thorough";
    let cases: Vec<Case> = match &args.replay {
        // A violation found by a burst case is the outcome of a race (submit vs. teardown): one
        // re-execution reproduces it only rarely.  C10_REPLAY_REPEAT=<k> (with VERIF_DEV=1 under ./check, which strips
        // C<nn>_ variables otherwise) re-executes every burst case of a
        // replay k times (one output line each); default 1, so the corpus run of a check is unchanged.
        Some(p) => {
            let k: usize = std::env::var("C10_REPLAY_REPEAT").ok().and_then(|s| s.parse().ok()).unwrap_or(1).clamp(1, 1000);
            read_cases(p)
                .iter()
                .filter_map(|l| Case::parse(l))
                .flat_map(|c| {
                    let r = if c.fault.starts_with("burst") { k } else { 1 };
                    std::iter::repeat(c).take(r)
                })
                .collect()
        }
        None => gen_cases(args.seed, args.n, thorough),
    };
    let par: usize = std::env::var("C10_PAR").ok().and_then(|s| s.parse().ok()).unwrap_or(12);
    let rt = tokio::runtime::Builder::new_multi_thread().worker_threads(8).enable_all().build().unwrap();
    let results: Vec<(String, String)> = rt.block_on(async move {
        now_ms();
        tokio::spawn(stall_monitor());
        use futures::stream::{self, StreamExt};
        stream::iter(cases.into_iter().map(|c| async move {
            let line = c.line();
            // a case whose SETUP (cluster start, session creation, prepare: before any fault is
            // injected) fails is retried; if the environment stays unusable it is reported as skipped
            let mut out = String::new();
            for attempt in 0..5u64 {
                let h = tokio::spawn(run_case(c.clone()));
                out = match h.await {
                    Ok(o) => o,
                    Err(e) => format!("error panic {}", e),
                };
                if !out.starts_with("setup-error") {
                    break;
                }
                tokio::time::sleep(Duration::from_millis(300 * (attempt + 1))).await;
            }
            if let Some(r) = out.strip_prefix("setup-error") {
                out = format!("skip{}", r.replace(' ', "_").chars().take(120).collect::<String>());
            }
            (line, out)
        }))
        .buffered(par)
        .collect()
        .await
    });
    let mut out = Out::create(&args.out);
    for (l, o) in results {
        out.case(&l, &o);
    }
    out.finish();
}
