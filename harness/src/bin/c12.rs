//! C12 runner (e2e): a real `Session` against `vh::mocknode` clusters; for every logical request
//! (execution of a prepared statement with a bound partition key) it records at which
//! (node, server-side shard) the FIRST frame of the request arrived, together with the state of
//! the pools as the mock saw them just before the request.
//!
//! One line = one request, self-contained:
//!   K <nodes> <ring> <keyspaces> <cfg> <stmt> <tablets> <values> | <obs> <pools>
//!   nodes      per node (id = position+1)  dc.rack.nr_shards.msb.up.filtered   up: u | b (down before the
//!              session is built) | a (stopped after the pools were full); filtered 1 = rejected by the HostFilter
//!   ring       tok:id,...            (hex, signed)
//!   keyspaces  ;-joined  <strategy>/<tablet based 0|1>    strategy: S<rf> | N<dc>=<rf>+... | L | O ; id = position
//!   cfg        <pool S<k>|H<k>>/<shard-aware port disallowed>/<policy pref>/<token aware>/<failover>/<shuffle>/<session pref>
//!              pref: i (inherit) | a | d<dc> | r<dc>.<rack>
//!   stmt       <ks>.<table>/<m|c partitioner>/<lwt>/<serial cl>/<markers>/<api>   marker: <i|l|t|b><pk position|->
//!              api: u execute_unpaged | s execute_single_page | i execute_iter (the first page)
//!   tablets    - | ;-joined history of the statement's table:  L<a>:<b>:<host>=<shard>+...  |  R (refresh_metadata)
//!   values     ,-joined  v<hex> | n | u      (the serialized bound values, marker order)
//!   obs        <node>:<shard> | none | unsettled
//!   pools      per node  <c|d (Node::is_connected)>:<server-side shards of the node's pool connections, +-joined | _>
//!              A connection counts as a pool connection once it has SERVED a request aimed at its node (probe through a
//!              pinning policy, see `establish`): the driver has then certainly published it.  A request during which
//!              the set of live connections changed is reported `unsettled` (not judged).
//!
//! Refiller tie, one line per node at the end of a cluster's life:
//!   R <initial nr_shards>.<msb> <pool>/<shard-aware port disallowed> <rounds: k<n>[+<shift>] cut n connections (after <shift> raw
//!     connections that shift the mock's plain-port round-robin) | s<nr>k<n> the node
//!     first changes its shard count to nr (resharding),.. | -> | <events> <final shards>
//!     events: ;-joined, in the order the mock saw them:  r<conn>.<shard>.<shard-aware port 0|1>.<nr_shards reported> (handshake
//!     of a pool connection completed) | b<conn>.<shard>.<nr_shards> (the mock cut it) | c<conn>.<shard>.<nr_shards> (the CLIENT closed it); final shards: +-joined server-side shards of the
//!     established pool | _
//!
//! Pool tie, one line per (node, shard) probed in the pass that established the pools:
//!   P <nr_shards>.<msb> <pool S<k>|H<k>>/<shard-aware port disallowed> <wanted shard> | <server-side shard of the serving connection> <shards of the node's connections>
use scylla::client::execution_profile::ExecutionProfile;
use scylla::client::session::Session;
use scylla::client::session_builder::SessionBuilder;
use scylla::client::PoolSize;
use scylla::cluster::metadata::Peer;
use scylla::policies::host_filter::HostFilter;
use scylla::cluster::{ClusterState, NodeRef};
use scylla::policies::load_balancing::{DefaultPolicy, FallbackPlan, LoadBalancingPolicy, RoutingInfo};
use scylla::routing::Shard;
use scylla::policies::retry::FallthroughRetryPolicy;
use scylla::response::PagingState;
use scylla::routing::Token;
use scylla::statement::prepared::PreparedStatement;
use scylla::statement::Consistency;
use scylla::value::CqlValue;
use std::collections::{BTreeMap, HashSet};
use std::sync::Mutex;
use std::num::NonZeroUsize;
use std::sync::Arc;
use std::time::{Duration, Instant};
use uuid::Uuid;
use vh::mocknode::*;
use vh::*;

// ------------------------------------------------------------------------------------------
// case description
// ------------------------------------------------------------------------------------------
#[derive(Clone, Debug)]
struct NodeC {
    dc: u32,
    rack: u32,
    nr: u16,
    msb: u8,
    up: char,
    flt: bool,
    tokens: Vec<i64>,
}
#[derive(Clone, Debug)]
enum Strat {
    Simple(u32),
    Nts(Vec<(u32, u32)>),
    Local,
    Other,
}
#[derive(Clone, Debug)]
struct KsC {
    strat: Strat,
    tablets: bool,
}
#[derive(Clone, Debug, PartialEq)]
enum Pref {
    Inherit,
    Any,
    Dc(u32),
    Rack(u32, u32),
}
#[derive(Clone, Debug)]
struct CfgC {
    per_shard: bool,
    pool_n: usize,
    no_sap: bool,
    pol_pref: Pref,
    ta: bool,
    fo: bool,
    shuf: bool,
    sess_pref: Pref,
}
#[derive(Clone, Debug)]
struct MarkC {
    ty: char,
    pk: Option<u8>,
}
#[derive(Clone, Debug)]
struct StmtC {
    ks: u32,
    tb: u32,
    cdc: bool,
    lwt: bool,
    serial: bool,
    marks: Vec<MarkC>,
    api: char,
}
#[derive(Clone, Debug)]
enum TabOp {
    Learn { a: i64, b: i64, reps: Vec<(u32, i32)> },
    Refresh,
}
#[derive(Clone, Debug)]
struct ClusterC {
    nodes: Vec<NodeC>,
    kss: Vec<KsC>,
    cfg: CfgC,
}
#[derive(Clone, Debug)]
enum Val {
    Null,
    V(Vec<u8>),
}

fn b01(b: bool) -> &'static str {
    if b { "1" } else { "0" }
}
fn pref_s(p: &Pref) -> String {
    match p {
        Pref::Inherit => "i".into(),
        Pref::Any => "a".into(),
        Pref::Dc(d) => format!("d{:x}", d),
        Pref::Rack(d, r) => format!("r{:x}.{:x}", d, r),
    }
}
fn pref_p(s: &str) -> Pref {
    match s.as_bytes()[0] {
        b'i' => Pref::Inherit,
        b'a' => Pref::Any,
        b'd' => Pref::Dc(u32::from_str_radix(&s[1..], 16).unwrap()),
        _ => {
            let (d, r) = s[1..].split_once('.').unwrap();
            Pref::Rack(u32::from_str_radix(d, 16).unwrap(), u32::from_str_radix(r, 16).unwrap())
        }
    }
}
fn strat_s(s: &Strat) -> String {
    match s {
        Strat::Simple(rf) => format!("S{:x}", rf),
        Strat::Nts(m) => format!("N{}", m.iter().map(|(d, rf)| format!("{:x}={:x}", d, rf)).collect::<Vec<_>>().join("+")),
        Strat::Local => "L".into(),
        Strat::Other => "O".into(),
    }
}
fn strat_p(s: &str) -> Strat {
    match s.as_bytes()[0] {
        b'S' => Strat::Simple(u32::from_str_radix(&s[1..], 16).unwrap()),
        b'N' => Strat::Nts(
            s[1..]
                .split('+')
                .filter(|e| !e.is_empty())
                .map(|e| {
                    let (d, rf) = e.split_once('=').unwrap();
                    (u32::from_str_radix(d, 16).unwrap(), u32::from_str_radix(rf, 16).unwrap())
                })
                .collect(),
        ),
        b'L' => Strat::Local,
        _ => Strat::Other,
    }
}
fn hexi(s: &str) -> i64 {
    if let Some(r) = s.strip_prefix('-') { (-(i128::from_str_radix(r, 16).unwrap())) as i64 } else { i128::from_str_radix(s, 16).unwrap() as i64 }
}

impl ClusterC {
    fn fields(&self) -> String {
        let nodes = self
            .nodes
            .iter()
            .map(|n| format!("{:x}.{:x}.{:x}.{:x}.{}.{}", n.dc, n.rack, n.nr, n.msb, n.up, b01(n.flt)))
            .collect::<Vec<_>>()
            .join(",");
        let mut ring = Vec::new();
        for (i, n) in self.nodes.iter().enumerate() {
            for t in &n.tokens {
                ring.push(format!("{}:{:x}", hex_i(*t as i128), i + 1));
            }
        }
        let ring = if ring.is_empty() { "-".to_string() } else { ring.join(",") };
        let kss = self.kss.iter().map(|k| format!("{}/{}", strat_s(&k.strat), b01(k.tablets))).collect::<Vec<_>>().join(";");
        let c = &self.cfg;
        let cfg = format!(
            "{}{:x}/{}/{}/{}/{}/{}/{}",
            if c.per_shard { "S" } else { "H" },
            c.pool_n,
            b01(c.no_sap),
            pref_s(&c.pol_pref),
            b01(c.ta),
            b01(c.fo),
            b01(c.shuf),
            pref_s(&c.sess_pref)
        );
        format!("{} {} {} {}", nodes, ring, kss, cfg)
    }
    fn parse(nodes: &str, ring: &str, kss: &str, cfg: &str) -> ClusterC {
        let mut ns: Vec<NodeC> = nodes
            .split(',')
            .map(|e| {
                let f: Vec<&str> = e.split('.').collect();
                NodeC {
                    dc: u32::from_str_radix(f[0], 16).unwrap(),
                    rack: u32::from_str_radix(f[1], 16).unwrap(),
                    nr: u16::from_str_radix(f[2], 16).unwrap(),
                    msb: u8::from_str_radix(f[3], 16).unwrap(),
                    up: f[4].chars().next().unwrap(),
                    flt: f[5] == "1",
                    tokens: vec![],
                }
            })
            .collect();
        if ring != "-" {
            for e in ring.split(',') {
                let (t, i) = e.rsplit_once(':').unwrap();
                let i = usize::from_str_radix(i, 16).unwrap();
                ns[i - 1].tokens.push(hexi(t));
            }
        }
        let kss = kss
            .split(';')
            .map(|e| {
                let (s, t) = e.rsplit_once('/').unwrap();
                KsC { strat: strat_p(s), tablets: t == "1" }
            })
            .collect();
        let f: Vec<&str> = cfg.split('/').collect();
        let cfg = CfgC {
            per_shard: f[0].starts_with('S'),
            pool_n: usize::from_str_radix(&f[0][1..], 16).unwrap(),
            no_sap: f[1] == "1",
            pol_pref: pref_p(f[2]),
            ta: f[3] == "1",
            fo: f[4] == "1",
            shuf: f[5] == "1",
            sess_pref: pref_p(f[6]),
        };
        ClusterC { nodes: ns, kss, cfg }
    }
}
impl StmtC {
    fn field(&self) -> String {
        format!(
            "{:x}.{:x}/{}/{}/{}/{}/{}",
            self.ks,
            self.tb,
            if self.cdc { "c" } else { "m" },
            b01(self.lwt),
            b01(self.serial),
            self.marks.iter().map(|m| format!("{}{}", m.ty, m.pk.map(|p| p.to_string()).unwrap_or("-".into()))).collect::<Vec<_>>().join(","),
            self.api
        )
    }
    fn parse(s: &str) -> StmtC {
        let f: Vec<&str> = s.split('/').collect();
        let (ks, tb) = f[0].split_once('.').unwrap();
        StmtC {
            ks: u32::from_str_radix(ks, 16).unwrap(),
            tb: u32::from_str_radix(tb, 16).unwrap(),
            cdc: f[1] == "c",
            lwt: f[2] == "1",
            serial: f[3] == "1",
            marks: f[4]
                .split(',')
                .map(|m| MarkC { ty: m.chars().next().unwrap(), pk: if &m[1..] == "-" { None } else { Some(m[1..].parse().unwrap()) } })
                .collect(),
            api: f.get(5).and_then(|a| a.chars().next()).unwrap_or('u'),
        }
    }
    fn ks_name(&self) -> String {
        format!("ks{}", self.ks)
    }
    fn tb_name(&self) -> String {
        format!("t{}", self.tb)
    }
    fn text(&self) -> String {
        let cols: Vec<String> = (0..self.marks.len()).map(|i| format!("c{}", i)).collect();
        format!("INSERT INTO {}.{} ({}) VALUES ({})", self.ks_name(), self.tb_name(), cols.join(", "), vec!["?"; cols.len()].join(", "))
    }
    fn cql_type(ty: char) -> CqlType {
        match ty {
            'i' => CqlType::Int,
            'l' => CqlType::BigInt,
            't' => CqlType::Text,
            _ => CqlType::Blob,
        }
    }
    fn table_def(&self) -> TableDef {
        let mut pk: Vec<(u8, usize)> = self.marks.iter().enumerate().filter_map(|(i, m)| m.pk.map(|p| (p, i))).collect();
        pk.sort();
        let pkn: Vec<(String, CqlType)> = pk.iter().map(|(_, i)| (format!("c{}", i), Self::cql_type(self.marks[*i].ty))).collect();
        let reg: Vec<(String, CqlType)> =
            self.marks.iter().enumerate().filter(|(_, m)| m.pk.is_none()).map(|(i, m)| (format!("c{}", i), Self::cql_type(m.ty))).collect();
        let pkr: Vec<(&str, CqlType)> = pkn.iter().map(|(n, t)| (n.as_str(), t.clone())).collect();
        let regr: Vec<(&str, CqlType)> = reg.iter().map(|(n, t)| (n.as_str(), t.clone())).collect();
        let mut t = TableDef::new(&self.tb_name(), &pkr, &[], &regr);
        if self.cdc {
            t.partitioner = Some("com.scylladb.dht.CDCPartitioner".into());
        }
        t
    }
    fn prepared_spec(&self) -> PreparedSpec {
        let ks = self.ks_name();
        let tb = self.tb_name();
        let bind_columns: Vec<ColSpec> =
            self.marks.iter().enumerate().map(|(i, m)| ColSpec::new(&ks, &tb, &format!("c{}", i), Self::cql_type(m.ty))).collect();
        let mut pk: Vec<(u8, usize)> = self.marks.iter().enumerate().filter_map(|(i, m)| m.pk.map(|p| (p, i))).collect();
        pk.sort();
        PreparedSpec { bind_columns, pk_indexes: pk.iter().map(|(_, i)| *i as u16).collect(), lwt: self.lwt, ..Default::default() }
    }
}
fn tabs_s(h: &[TabOp]) -> String {
    if h.is_empty() {
        return "-".into();
    }
    h.iter()
        .map(|o| match o {
            TabOp::Refresh => "R".to_string(),
            TabOp::Learn { a, b, reps } => format!(
                "L{}:{}:{}",
                hex_i(*a as i128),
                hex_i(*b as i128),
                if reps.is_empty() { "_".to_string() } else { reps.iter().map(|(h, s)| format!("{:x}={}", h, hex_i(*s as i128))).collect::<Vec<_>>().join("+") }
            ),
        })
        .collect::<Vec<_>>()
        .join(";")
}
fn tabs_p(s: &str) -> Vec<TabOp> {
    if s == "-" {
        return vec![];
    }
    s.split(';')
        .map(|o| {
            if o == "R" {
                TabOp::Refresh
            } else {
                let f: Vec<&str> = o[1..].split(':').collect();
                let reps = if f[2] == "_" {
                    vec![]
                } else {
                    f[2].split('+')
                        .map(|e| {
                            let (h, s) = e.split_once('=').unwrap();
                            (u32::from_str_radix(h, 16).unwrap(), hexi(s) as i32)
                        })
                        .collect()
                };
                TabOp::Learn { a: hexi(f[0]), b: hexi(f[1]), reps }
            }
        })
        .collect()
}
fn vals_s(v: &[Val]) -> String {
    v.iter().map(|x| match x { Val::Null => "n".to_string(), Val::V(b) => format!("v{}", hex_bytes(b)) }).collect::<Vec<_>>().join(",")
}
fn vals_p(s: &str) -> Vec<Val> {
    s.split(',')
        .map(|e| {
            if e == "n" {
                Val::Null
            } else {
                let h = &e[1..];
                if h == "-" { Val::V(vec![]) } else { Val::V((0..h.len() / 2).map(|i| u8::from_str_radix(&h[2 * i..2 * i + 2], 16).unwrap()).collect()) }
            }
        })
        .collect()
}
/// typed value for the driver from the serialized bytes
fn to_cql(ty: char, v: &Val) -> Option<CqlValue> {
    match v {
        Val::Null => None,
        Val::V(b) => Some(match ty {
            'i' => CqlValue::Int(i32::from_be_bytes(b[..4].try_into().unwrap())),
            'l' => CqlValue::BigInt(i64::from_be_bytes(b[..8].try_into().unwrap())),
            't' => CqlValue::Text(String::from_utf8(b.clone()).unwrap()),
            _ => CqlValue::Blob(b.clone()),
        }),
    }
}

// ------------------------------------------------------------------------------------------
// running a cluster
// ------------------------------------------------------------------------------------------
struct Filter(HashSet<Uuid>);
impl HostFilter for Filter {
    fn accept(&self, peer: &Peer) -> bool {
        !self.0.contains(&peer.host_id)
    }
}

fn host_uuid(id: u32) -> Uuid {
    // node ids are 1-based positions; anything above the cluster size is an unknown host
    host_id_for((id - 1) as usize)
}

fn mock_spec(c: &ClusterC, stmts: &[StmtC]) -> ClusterSpec {
    let nodes: Vec<NodeSpec> = c
        .nodes
        .iter()
        .enumerate()
        .map(|(i, n)| NodeSpec {
            host_id: host_id_for(i),
            dc: format!("dc{}", n.dc),
            rack: format!("r{}", n.rack),
            tokens: n.tokens.clone(),
            nr_shards: n.nr,
            msb_ignore: n.msb,
            metadata_id_ext: None,
        })
        .collect();
    let mut spec = ClusterSpec::uniform("c12", &[("dc1", 1)], 1, 1, 1);
    spec.nodes = nodes;
    for (i, k) in c.kss.iter().enumerate() {
        let name = format!("ks{}", i);
        let mut kd = match &k.strat {
            Strat::Simple(rf) => KeyspaceDef::simple(&name, *rf),
            Strat::Nts(m) => {
                let v: Vec<(String, u32)> = m.iter().map(|(d, rf)| (format!("dc{}", d), *rf)).collect();
                let r: Vec<(&str, u32)> = v.iter().map(|(d, rf)| (d.as_str(), *rf)).collect();
                KeyspaceDef::nts(&name, &r)
            }
            Strat::Local => {
                let mut k = KeyspaceDef::simple(&name, 1);
                k.replication = vec![("class".into(), "org.apache.cassandra.locator.LocalStrategy".into())];
                k
            }
            Strat::Other => {
                let mut k = KeyspaceDef::simple(&name, 1);
                k.replication = vec![("class".into(), "org.example.EverywhereStrategy".into())];
                k
            }
        };
        if k.tablets {
            kd = kd.with_tablets(8);
        }
        for s in stmts.iter().filter(|s| s.ks as usize == i) {
            if kd.table(&s.tb_name()).is_none() {
                kd = kd.with_table(s.table_def());
            }
        }
        spec = spec.with_keyspace(kd);
    }
    spec
}

fn pref_names(p: &Pref) -> Option<(String, Option<String>)> {
    match p {
        Pref::Dc(d) => Some((format!("dc{}", d), None)),
        Pref::Rack(d, r) => Some((format!("dc{}", d), Some(format!("r{}", r)))),
        _ => None,
    }
}

/// load balancing policy of the probe statement: exactly one target, (node, shard)
#[derive(Debug)]
struct ProbePolicy {
    target: Mutex<(Uuid, Shard)>,
}
impl LoadBalancingPolicy for ProbePolicy {
    fn pick<'a>(&'a self, _r: &'a RoutingInfo, cluster: &'a ClusterState) -> Option<(NodeRef<'a>, Option<Shard>)> {
        let (h, s) = *self.target.lock().unwrap();
        cluster.get_nodes_info().iter().find(|n| n.host_id == h).map(|n| (n, Some(s)))
    }
    fn fallback<'a>(&'a self, _r: &'a RoutingInfo, _c: &'a ClusterState) -> FallbackPlan<'a> {
        Box::new(std::iter::empty())
    }
    fn name(&self) -> String {
        "probe".into()
    }
}

enum Probe {
    Served(usize, u64, u16),
    NothingSent,
    TimedOut,
}

static PERSISTENT: std::sync::atomic::AtomicUsize = std::sync::atomic::AtomicUsize::new(0);

struct Running {
    c: ClusterC,
    cluster: MockCluster,
    session: Session,
    sentinel: Option<PreparedStatement>,
    round: i32,
    probe: Option<PreparedStatement>,
    probe_pol: Arc<ProbePolicy>,
    /// the connections known to be published in the driver's pools: conn id -> (node, server-side shard)
    judged: BTreeMap<u64, (usize, u16)>,
    /// pool-tie lines of the pass that established `judged`
    ptie: Vec<(String, String)>,
    /// connection life cycle as the mock saw it: conn id -> (node, shard, shard-aware port, handshake done)
    life: BTreeMap<u64, (usize, u16, bool, bool, u16)>,
    control: HashSet<u64>,
    /// (node, 'r' | 'b', conn id) in trace order
    events: Vec<(usize, char, u64)>,
    /// kill rounds applied per node
    rounds: Vec<Vec<String>>,
    /// shard count each node started with
    nr0: Vec<u16>,
}

const SENT_TEXT: &str = "INSERT INTO zzks.zz (c0) VALUES (?)";
const PROBE_TEXT: &str = "SELECT probe FROM zzks.probe";

impl Running {
    async fn start(c: &ClusterC, stmts: &[StmtC]) -> Result<Running, String> {
        let cluster = MockCluster::start(mock_spec(c, stmts)).await.map_err(|e| format!("mock-start_{:?}", e).replace(' ', "_"))?;
        for (i, n) in c.nodes.iter().enumerate() {
            if n.up == 'b' {
                cluster.stop_node(i, CutKind::Rst);
            }
        }
        for s in stmts {
            cluster.on_prepare(&s.text(), s.prepared_spec());
            cluster.set_default(NodeSel::Any, s.text().as_str(), vec![Action::Rows(RowsSpec::new(vec![], vec![]))]);
        }
        cluster.on_prepare(
            SENT_TEXT,
            PreparedSpec { bind_columns: vec![ColSpec::new("zzks", "zz", "c0", CqlType::Int)], ..Default::default() },
        );
        let contact = c.nodes.iter().position(|n| n.up != 'b' && !n.flt).ok_or("no_contact_node")?;
        let mut pb = DefaultPolicy::builder().token_aware(c.cfg.ta).permit_dc_failover(c.cfg.fo).enable_shuffling_replicas(c.cfg.shuf);
        pb = match &c.cfg.pol_pref {
            Pref::Inherit => pb,
            Pref::Any => pb.prefer_no_datacenter(),
            Pref::Dc(d) => pb.prefer_datacenter(format!("dc{}", d)),
            Pref::Rack(d, r) => pb.prefer_datacenter_and_rack(format!("dc{}", d), format!("r{}", r)),
        };
        let profile = ExecutionProfile::builder().load_balancing_policy(pb.build()).retry_policy(Arc::new(FallthroughRetryPolicy)).build();
        let n = NonZeroUsize::new(c.cfg.pool_n).unwrap();
        let filtered: HashSet<Uuid> = c.nodes.iter().enumerate().filter(|(_, n)| n.flt).map(|(i, _)| host_id_for(i)).collect();
        let mut b = SessionBuilder::new()
            .known_node_addr(cluster.contact_point(contact))
            .local_ip_address(Some(cluster.client_ip()))
            .connection_timeout(Duration::from_millis(800))
            .cluster_metadata_refresh_interval(Duration::from_secs(600))
            .pool_size(if c.cfg.per_shard { PoolSize::PerShard(n) } else { PoolSize::PerHost(n) })
            .disallow_shard_aware_port(c.cfg.no_sap)
            .default_execution_profile_handle(profile.into_handle())
            .host_filter(Arc::new(Filter(filtered)));
        if let Some((d, r)) = pref_names(&c.cfg.sess_pref) {
            b = match r {
                Some(r) => b.prefer_datacenter_and_rack(d, r),
                None => b.prefer_datacenter(d),
            };
        }
        let session = match tokio::time::timeout(Duration::from_secs(20), b.build()).await {
            Ok(Ok(s)) => s,
            Ok(Err(e)) => {
                cluster.shutdown();
                return Err(format!("session {:?}", e).replace(' ', "_"));
            }
            Err(_) => {
                cluster.shutdown();
                return Err("session-timeout".into());
            }
        };
        let probe_pol = Arc::new(ProbePolicy { target: Mutex::new((host_id_for(0), 0)) });
        let mut r = Running { c: c.clone(), cluster, session, sentinel: None, round: 0, probe: None, probe_pol, judged: BTreeMap::new(), ptie: vec![], life: BTreeMap::new(), control: HashSet::new(), events: vec![], rounds: vec![vec![]; c.nodes.len()], nr0: c.nodes.iter().map(|n| n.nr).collect() };
        if !r.settle(false).await {
            r.stop();
            return Err("unsettled-initial".into());
        }
        for (i, n) in c.nodes.iter().enumerate() {
            if n.up == 'a' {
                r.cluster.stop_node(i, CutKind::Rst);
            }
        }
        if !r.settle(true).await {
            r.stop();
            return Err("unsettled-after-stop".into());
        }
        // a refresh triggered by a lost control connection must be over before tablets are learnt
        // (every refresh runs the tablets maintenance); an explicit one is queued behind it
        if c.nodes.iter().any(|n| n.up == 'a') && r.session.refresh_metadata().await.is_err() {
            r.stop();
            return Err("refresh-after-stop".into());
        }
        if !r.settle(true).await {
            r.stop();
            return Err("unsettled-after-refresh".into());
        }
        match r.session.prepare(SENT_TEXT).await {
            Ok(p) => r.sentinel = Some(p),
            Err(e) => {
                r.stop();
                return Err(format!("prepare-sentinel {:?}", e).replace(' ', "_"));
            }
        }
        match r.session.prepare(PROBE_TEXT).await {
            Ok(mut p) => {
                let prof = ExecutionProfile::builder().load_balancing_policy(r.probe_pol.clone()).retry_policy(Arc::new(FallthroughRetryPolicy)).build();
                p.set_execution_profile_handle(Some(prof.into_handle()));
                r.probe = Some(p);
            }
            Err(e) => {
                r.stop();
                return Err(format!("prepare-probe {:?}", e).replace(' ', "_"));
            }
        }
        if !r.establish().await {
            r.stop();
            return Err("pools-not-established".into());
        }
        Ok(r)
    }
    /// drains the mock's trace, keeping the life cycle of the connections
    fn drain(&mut self) -> Vec<TraceEvent> {
        let tr = self.cluster.drain_trace();
        for e in &tr {
            match &e.ev {
                Ev::Open { shard_aware_port, .. } => {
                    self.life.insert(e.conn_id, (e.node, e.shard, *shard_aware_port, false, self.c.nodes[e.node].nr));
                }
                Ev::Out { opcode, .. } if *opcode == op::READY => {
                    if let Some(l) = self.life.get_mut(&e.conn_id) {
                        if !l.3 {
                            l.3 = true;
                            self.events.push((e.node, 'r', e.conn_id));
                        }
                    }
                }
                Ev::In { opcode, .. } if *opcode == op::REGISTER => {
                    self.control.insert(e.conn_id);
                }
                Ev::Close { by } => {
                    if self.life.get(&e.conn_id).is_some_and(|l| l.3) {
                        // 'b': the mock cut it (an input of the refiller); 'c': the client closed it (an
                        // output: a connection the refiller let go)
                        self.events.push((e.node, if *by != CloseBy::Client { 'b' } else { 'c' }, e.conn_id));
                    }
                }
                _ => {}
            }
        }
        tr
    }
    /// the refiller-tie line of node i: "<case>", "<impl>"
    fn rline(&self, i: usize) -> (String, String) {
        let n = &self.c.nodes[i];
        let case = format!(
            "R {:x}.{:x} {}{:x}/{} {}",
            self.nr0[i], n.msb, if self.c.cfg.per_shard { "S" } else { "H" }, self.c.cfg.pool_n, b01(self.c.cfg.no_sap),
            if self.rounds[i].is_empty() { "-".to_string() } else { self.rounds[i].join(",") }
        );
        let evs: Vec<String> = self
            .events
            .iter()
            .filter(|(nd, _, cid)| *nd == i && !self.control.contains(cid))
            .map(|(_, k, cid)| {
                let l = self.life[cid];
                if *k == 'r' { format!("r{:x}.{:x}.{}.{:x}", cid, l.1, b01(l.2), l.4) } else { format!("{}{:x}.{:x}.{:x}", k, cid, l.1, l.4) }
            })
            .collect();
        let mut fin: Vec<u16> = self.judged.values().filter(|(nd, _)| *nd == i).map(|(_, s)| *s).collect();
        fin.sort();
        (
            case,
            format!(
                "{} {}",
                if evs.is_empty() { "-".to_string() } else { evs.join(";") },
                if fin.is_empty() { "_".to_string() } else { fin.iter().map(|s| format!("{:x}", s)).collect::<Vec<_>>().join("+") }
            ),
        )
    }
    /// cuts the `count` oldest pool connections of node i and waits until the pools are established again;
    /// with `reshard` the node first changes its shard count: the replacement connections report the new count
    /// and the driver's pool is rebuilt (maybe_reshard)
    async fn kill_round(&mut self, i: usize, count: usize, shift: usize, reshard: Option<u16>) -> bool {
        let ids: Vec<u64> = self.judged.iter().filter(|(_, (nd, _))| *nd == i).map(|(id, _)| *id).take(count).collect();
        if let Some(nr) = reshard {
            // every connection accepted so far is on record with the old shard count
            let _ = self.drain();
            self.cluster.update_spec(|sp| sp.nodes[i].nr_shards = nr);
            self.c.nodes[i].nr = nr;
            self.rounds[i].push(format!("s{:x}k{:x}", nr, ids.len()));
        } else {
            self.rounds[i].push(if shift > 0 { format!("k{:x}+{:x}", ids.len(), shift) } else { format!("k{:x}", ids.len()) });
        }
        for id in &ids {
            self.cluster.close_connection(i, *id, CutKind::Rst);
        }
        // shift the mock's plain-port round-robin by a few raw TCP connections (accepted, never used): the
        // replacements opened through the plain port then land on shards that are still covered -> excess
        // connections, kept until the pool is full and trimmed then
        for _ in 0..shift {
            if let Ok(s) = tokio::net::TcpStream::connect(self.cluster.contact_point(i)).await {
                drop(s);
            }
        }
        // the cut connections must be gone from the mock before the counts can be trusted
        let t = Instant::now();
        while t.elapsed() < Duration::from_secs(3) && self.live().keys().any(|c| ids.contains(c)) {
            tokio::time::sleep(Duration::from_millis(2)).await;
        }
        if let Some(nr) = reshard {
            // the driver learns the new shard count from the first replacement connection and then rebuilds the
            // pool: wait until no connection of the old configuration is left
            let t = Instant::now();
            loop {
                let _ = self.drain();
                let mine: Vec<u64> = self.live().iter().filter(|(_, (nd, _))| *nd == i).map(|(c, _)| *c).collect();
                if !mine.is_empty() && mine.iter().all(|c| self.life.get(c).is_some_and(|l| l.4 == nr)) {
                    break;
                }
                if t.elapsed() > Duration::from_secs(8) {
                    return false;
                }
                tokio::time::sleep(Duration::from_millis(3)).await;
            }
        }
        self.establish().await
    }
    /// live non-control connections of the mock: conn id -> (node, server-side shard)
    fn live(&self) -> BTreeMap<u64, (usize, u16)> {
        self.cluster.connections(None).iter().filter(|c| c.registered.is_empty()).map(|c| (c.conn_id, (c.node, c.shard))).collect()
    }
    /// one request aimed at (node, shard) through the pinning policy: which connection served it
    async fn probe_once(&mut self, node: usize, shard: u32) -> Probe {
        *self.probe_pol.target.lock().unwrap() = (host_id_for(node), shard);
        let p = self.probe.clone().unwrap();
        let id = self.cluster.prepared_id(PROBE_TEXT);
        let _ = self.drain();
        let res = tokio::time::timeout(Duration::from_secs(5), self.session.execute_unpaged(&p, ())).await;
        for e in self.drain() {
            if let Ev::In { opcode, body, .. } = &e.ev {
                if *opcode == op::EXECUTE && wire::decode_execute(body, false).map(|x| x.id == id).unwrap_or(false) {
                    return Probe::Served(e.node, e.conn_id, e.shard);
                }
            }
        }
        // the harness gave up (environment) vs. the driver answered without sending anything
        if res.is_err() { Probe::TimedOut } else { Probe::NothingSent }
    }
    /// Establishes which connections the driver's pools hold.  Waits until the configured counts are reached AND
    /// every live connection has completed its handshake (READY written by the mock), then probes every
    /// (node, shard) until every live connection has served a probe aimed at its node and no probe aimed at a
    /// shard the mock has a connection for was served elsewhere.  An inconsistent pass is believed only when the
    /// SAME mismatches (node, wanted shard, serving shard) are observed in consecutive passes for 1.5 s, counted
    /// from the first inconsistent pass (its P lines then show what happened).  A probe the harness abandons
    /// (5 s timeout) is environment: the pass does not count, and persisting timeouts end in not-run.
    async fn establish(&mut self) -> bool {
        let t0 = Instant::now();
        let k = self.c.cfg.pool_n;
        let mut first_bad: Option<(Instant, Vec<(usize, u32, u16)>)> = None;
        loop {
            if t0.elapsed() > Duration::from_secs(12) {
                return false;
            }
            // 200 ms once three scenarios of this run have shown a persistent inconsistency: the run is then a
            // violation anyway and must not take 500 x 1.5 s
            let patience = if PERSISTENT.load(std::sync::atomic::Ordering::Relaxed) >= 3 { 200 } else { 1500 };
            let _ = self.drain();
            let live = self.live();
            if self.settled_now(true).is_none() || !live.keys().all(|c| self.life.get(c).is_some_and(|l| l.3)) {
                tokio::time::sleep(Duration::from_millis(4)).await;
                continue;
            }
            let mut seen: HashSet<u64> = HashSet::new();
            let mut bad: Vec<(usize, u32, u16)> = Vec::new();
            let mut timed_out = false;
            let mut lines: Vec<(String, String)> = Vec::new();
            'pass: for i in 0..self.c.nodes.len() {
                if self.expected(i, true) == 0 {
                    continue;
                }
                let n = self.c.nodes[i].clone();
                let node_shards: Vec<u16> = { let mut v: Vec<u16> = live.values().filter(|(nd, _)| *nd == i).map(|(_, s)| *s).collect(); v.sort(); v };
                let pools_s = node_shards.iter().map(|s| format!("{:x}", s)).collect::<Vec<_>>().join("+");
                let mut wants: Vec<u32> = (0..n.nr.max(1) as u32).collect();
                if n.nr > 0 {
                    wants.push(n.nr as u32);       // out of range: any connection
                    wants.push(70000);             // does not fit u16: shard 0
                }
                for want in wants {
                    let here: Vec<u64> = live.iter().filter(|(_, (nd, s))| *nd == i && *s as u32 == want).map(|(id, _)| *id).collect();
                    let tries = if here.is_empty() { 2 } else { 2 * k + 4 };
                    let mut first: Option<u16> = None;
                    for _ in 0..tries {
                        match self.probe_once(i, want).await {
                            Probe::Served(nd, cid, sh) => {
                                if first.is_none() {
                                    first = Some(sh);
                                }
                                if nd != i || !live.contains_key(&cid) || (!here.is_empty() && sh as u32 != want) {
                                    bad.push((i, want, sh));
                                }
                                seen.insert(cid);
                            }
                            Probe::NothingSent => bad.push((i, want, u16::MAX)),
                            Probe::TimedOut => {
                                timed_out = true;
                                break 'pass;
                            }
                        }
                        if !here.is_empty() && here.iter().all(|c| seen.contains(c)) {
                            break;
                        }
                    }
                    let case = format!(
                        "P {:x}.{:x} {}{:x}/{} {:x}",
                        n.nr, n.msb, if self.c.cfg.per_shard { "S" } else { "H" }, k, b01(self.c.cfg.no_sap), want
                    );
                    lines.push((case, format!("{} {}", first.map(|s| format!("{:x}", s)).unwrap_or("none".into()), pools_s)));
                }
            }
            if timed_out {
                first_bad = None;
                tokio::time::sleep(Duration::from_millis(50)).await;
                continue;
            }
            bad.sort();
            bad.dedup();
            let covered = live.keys().all(|c| seen.contains(c));
            let unchanged = self.live() == live && self.settled_now(true).is_some();
            if covered && unchanged {
                if bad.is_empty() {
                    self.judged = live;
                    self.ptie = lines;
                    return true;
                }
                // believed only if the very same mismatches persist from pass to pass for `patience`
                match &first_bad {
                    Some((since, prev)) if *prev == bad => {
                        if since.elapsed() > Duration::from_millis(patience) {
                            PERSISTENT.fetch_add(1, std::sync::atomic::Ordering::Relaxed);
                            self.judged = live;
                            self.ptie = lines;
                            return true;
                        }
                    }
                    _ => first_bad = Some((Instant::now(), bad)),
                }
            } else {
                first_bad = None;
            }
            tokio::time::sleep(Duration::from_millis(10)).await;
        }
    }
    fn stop(&self) {
        self.cluster.shutdown();
    }
    fn expected(&self, i: usize, after: bool) -> usize {
        let n = &self.c.nodes[i];
        if n.flt || n.up == 'b' || (after && n.up == 'a') {
            return 0;
        }
        let shards = if n.nr == 0 { 1 } else { n.nr as usize };
        if self.c.cfg.per_shard { shards * self.c.cfg.pool_n } else { self.c.cfg.pool_n }
    }
    /// (driver's is_connected, server-side shards of the live non-control connections) per node
    fn snapshot(&self) -> Vec<(bool, Vec<u16>)> {
        let state = self.session.get_cluster_state();
        (0..self.c.nodes.len())
            .map(|i| {
                let conn = state.get_node_by_host_id(host_id_for(i)).map(|n| n.is_connected()).unwrap_or(false);
                let mut sh: Vec<u16> = self.cluster.connections(Some(i)).iter().filter(|c| c.registered.is_empty()).map(|c| c.shard).collect();
                sh.sort();
                (conn, sh)
            })
            .collect()
    }
    fn settled_now(&self, after: bool) -> Option<Vec<(bool, Vec<u16>)>> {
        let snap = self.snapshot();
        for (i, (conn, sh)) in snap.iter().enumerate() {
            let e = self.expected(i, after);
            if sh.len() != e || *conn != (e > 0) {
                return None;
            }
        }
        if !self.cluster.connections(None).iter().any(|c| !c.registered.is_empty()) {
            return None;
        }
        Some(snap)
    }
    async fn settle(&self, after: bool) -> bool {
        let t = Instant::now();
        let mut good = 0;
        let mut last: Option<Vec<(bool, Vec<u16>)>> = None;
        while t.elapsed() < Duration::from_secs(6) {
            match self.settled_now(after) {
                Some(s) => {
                    if last.as_ref() == Some(&s) { good += 1 } else { good = 1 }
                    last = Some(s);
                    if good >= 3 {
                        return true;
                    }
                }
                None => {
                    good = 0;
                    last = None;
                }
            }
            tokio::time::sleep(Duration::from_millis(4)).await;
        }
        false
    }
    /// makes sure every tablet payload received so far has been applied to the cluster state
    async fn sync_tablets(&mut self) -> bool {
        self.round += 1;
        let round = self.round;
        self.cluster.script(
            NodeSel::Any,
            SENT_TEXT,
            // shard 1000 + round: no computed shard can be that (before the sentinel tablet exists the lookup falls
            // back to the ring and yields ONE replica with a computed shard < 8, which must not pass for it)
            vec![Action::TabletPayload(tablet_payload_value(-100, 100, &[(host_id_for(0), 1000 + round)])), Action::Void],
        );
        if self.session.execute_unpaged(self.sentinel.as_ref().unwrap(), (1i32,)).await.is_err() {
            return false;
        }
        let t = Instant::now();
        while t.elapsed() < Duration::from_secs(3) {
            let st = self.session.get_cluster_state();
            let e = st.get_token_endpoints("zzks", "zz", Token::new(0));
            if e.len() == 1 && e[0].0.host_id == host_id_for(0) && e[0].1 == (1000 + round) as u32 {
                return true;
            }
            tokio::time::sleep(Duration::from_millis(1)).await;
        }
        false
    }
    /// Some(true): applied; Some(false): the carrying request could not be sent, nothing was delivered;
    /// None: could not establish that the cluster state caught up
    async fn apply(&mut self, st: &StmtC, p: &PreparedStatement, op: &TabOp) -> Option<bool> {
        match op {
            TabOp::Refresh => if self.session.refresh_metadata().await.is_ok() { Some(true) } else { None },
            TabOp::Learn { a, b, reps } => {
                let r: Vec<(Uuid, i32)> = reps.iter().map(|(h, s)| (host_uuid(*h), *s)).collect();
                self.cluster.script(NodeSel::Any, st.text().as_str(), vec![Action::TabletPayload(tablet_payload_value(*a, *b, &r)), Action::Void]);
                let vals: Vec<Option<CqlValue>> = st.marks.iter().map(|m| to_cql(m.ty, &Val::V(default_bytes(m.ty)))).collect();
                if self.session.execute_unpaged(p, vals).await.is_err() {
                    self.cluster.clear_scripts();
                    return Some(false);
                }
                if self.sync_tablets().await { Some(true) } else { None }
            }
        }
    }
    fn pools_field(&self) -> String {
        (0..self.c.nodes.len())
            .map(|i| {
                let mut sh: Vec<u16> = self.judged.values().filter(|(nd, _)| *nd == i).map(|(_, s)| *s).collect();
                sh.sort();
                format!("{}:{}", if sh.is_empty() { "d" } else { "c" }, if sh.is_empty() { "_".to_string() } else { sh.iter().map(|s| format!("{:x}", s)).collect::<Vec<_>>().join("+") })
            })
            .collect::<Vec<_>>()
            .join(",")
    }
    /// the pools are the established ones: same live connections, Node::is_connected agrees
    fn still_established(&self) -> bool {
        self.live() == self.judged && self.settled_now(true).is_some()
    }
    /// one logical request: returns "<obs> <pools>"
    async fn request(&mut self, st: &StmtC, p: &PreparedStatement, vals: &[Val]) -> String {
        for attempt in 0..2 {
            if !self.still_established() && !self.establish().await {
                return "unsettled -".into();
            }
            let _ = self.drain();
            let typed: Vec<Option<CqlValue>> = st.marks.iter().zip(vals).map(|(m, v)| to_cql(m.ty, v)).collect();
            let res = tokio::time::timeout(Duration::from_secs(10), async {
                match st.api {
                    's' => self.session.execute_single_page(p, typed, PagingState::start()).await.map(|_| ()).map_err(|_| ()),
                    'i' => self.session.execute_iter(p.clone(), typed).await.map(|_| ()).map_err(|_| ()),
                    _ => self.session.execute_unpaged(p, typed).await.map(|_| ()).map_err(|_| ()),
                }
            })
            .await;
            let id = self.cluster.prepared_id(&st.text());
            let mut obs = "none".to_string();
            for e in self.drain() {
                if let Ev::In { opcode, body, .. } = &e.ev {
                    if *opcode == op::EXECUTE {
                        if let Ok(x) = wire::decode_execute(body, false) {
                            if x.id == id {
                                // the serialized values the driver sent must be the ones of the case line
                                let sent: Vec<Val> = x.params.values.iter().map(|v| match v { Value::Bytes(b) => Val::V(b.clone()), _ => Val::Null }).collect();
                                if vals_s(&sent) != vals_s(vals) {
                                    obs = format!("badvalues:{}", vals_s(&sent));
                                } else {
                                    obs = format!("{:x}:{:x}", e.node + 1, e.shard);
                                }
                                break;
                            }
                        }
                    }
                }
            }
            if res.is_err() {
                // the harness gave up after 10 s: environment, not the property; one retry, then not-run
                if attempt == 0 {
                    continue;
                }
                return "skip:timeout -".into();
            }
            if !self.still_established() {
                // a connection appeared or vanished while the request was under way: not judged
                if attempt == 0 {
                    continue;
                }
                return "unsettled -".into();
            }
            return format!("{} {}", obs, self.pools_field());
        }
        "unsettled -".into()
    }
}

fn default_bytes(ty: char) -> Vec<u8> {
    match ty {
        'i' => vec![0, 0, 0, 1],
        'l' => vec![0, 0, 0, 0, 0, 0, 0, 1],
        't' => b"k".to_vec(),
        _ => vec![7],
    }
}

// ------------------------------------------------------------------------------------------
// generators
// ------------------------------------------------------------------------------------------
fn gen_cluster(r: &mut Rng) -> ClusterC {
    let n = *r.pick(&[1usize, 2, 3, 3, 4, 4, 5, 6, 6]);
    let ndc = (r.range(1, 3) as usize).min(n);
    let nracks = r.range(1, 3) as u32;
    let shard_style = r.below(6);
    let base_shards = *r.pick(&[1u16, 2, 3, 4, 5, 7, 8]);
    let vn = r.range(1, 4) as usize;
    let mut tokens_all: Vec<i64> = Vec::new();
    let tok_style = r.below(4);
    let mut nodes: Vec<NodeC> = (0..n)
        .map(|i| {
            let nr = match shard_style {
                0 => 0,                                                  // Cassandra-like cluster
                1 => if r.chance(1, 3) { 0 } else { base_shards },        // mixed
                2 => *r.pick(&[1u16, 2, 3, 4, 5, 6, 7, 8]),              // per-node shard counts
                _ => base_shards,
            };
            let mut tokens = Vec::new();
            for _ in 0..vn {
                loop {
                    let t = match tok_style {
                        0 => r.i64(),
                        1 => (r.below(2000) as i64 - 1000) * 1_000_000_007,
                        2 => r.i64() >> 8,
                        _ => if r.chance(1, 8) { *r.pick(&[i64::MIN + 1, i64::MAX, -1, 0, 1]) } else { r.i64() },
                    };
                    if !tokens_all.contains(&t) {
                        tokens_all.push(t);
                        tokens.push(t);
                        break;
                    }
                }
            }
            NodeC { dc: (i % ndc) as u32 + 1, rack: r.range(1, nracks as u64) as u32, nr, msb: *r.pick(&[12u8, 12, 0, 4, 1]), up: 'u', flt: false, tokens }
        })
        .collect();
    // a node without tokens: known, with a pool, not on the ring (it can still be a tablet replica)
    if n > 2 && r.chance(1, 8) {
        let i = r.range(1, n as u64 - 1) as usize;
        nodes[i].tokens.clear();
    }
    // liveness / host filter: keep at least one node fully usable
    if n > 1 {
        let style = r.below(8);
        for i in 0..n {
            let (down, flt) = match style {
                0 | 1 | 2 => (false, false),
                3 => (r.chance(1, 3), false),
                4 => (false, r.chance(1, 3)),
                5 => (r.chance(1, 2), r.chance(1, 4)),
                _ => (r.chance(1, 4), r.chance(1, 6)),
            };
            if down {
                nodes[i].up = if r.bool() { 'a' } else { 'b' };
            }
            nodes[i].flt = flt;
        }
        let with_tokens: Vec<usize> = (0..n).filter(|i| !nodes[*i].tokens.is_empty()).collect();
        let keep = *r.pick(&with_tokens);
        nodes[keep].up = 'u';
        nodes[keep].flt = false;
    }
    // keyspaces
    let mut kss = Vec::new();
    let nks = r.range(2, 4);
    for _ in 0..nks {
        let strat = match r.below(10) {
            0..=3 => Strat::Simple(r.range(0, n as u64 + 1) as u32),
            4..=7 => {
                let mut m = Vec::new();
                for d in 1..=ndc as u32 {
                    if r.chance(5, 6) {
                        m.push((d, if r.chance(1, 6) { 0 } else { r.range(1, 3) as u32 }));
                    }
                }
                if r.chance(1, 5) {
                    m.push((7, r.range(0, 2) as u32)); // a datacenter that is not on the ring
                }
                Strat::Nts(m)
            }
            8 => Strat::Local,
            _ => Strat::Other,
        };
        kss.push(KsC { strat, tablets: r.chance(1, 3) });
    }
    let gen_pref = |r: &mut Rng, inherit_ok: bool| -> Pref {
        match r.below(10) {
            0 | 1 if inherit_ok => Pref::Inherit,
            0..=3 => Pref::Any,
            4..=6 => Pref::Dc(if r.chance(1, 10) { 7 } else { r.range(1, ndc as u64) as u32 }),
            _ => Pref::Rack(r.range(1, ndc as u64) as u32, if r.chance(1, 10) { 9 } else { r.range(1, nracks as u64) as u32 }),
        }
    };
    let per_shard = r.chance(3, 5);
    let cfg = CfgC {
        per_shard,
        pool_n: if per_shard { r.range(1, 2) as usize } else { r.range(1, 4) as usize },
        no_sap: r.chance(1, 4),
        pol_pref: gen_pref(r, true),
        ta: r.chance(9, 10),
        fo: r.bool(),
        shuf: r.chance(3, 4),
        sess_pref: gen_pref(r, false),
    };
    ClusterC { nodes, kss, cfg }
}

fn gen_stmt(r: &mut Rng, c: &ClusterC, tb: u32) -> StmtC {
    let npk = r.range(1, 3) as usize;
    let nreg = r.range(0, 2) as usize;
    let mut marks: Vec<MarkC> = (0..npk).map(|p| MarkC { ty: *r.pick(&['i', 'l', 't', 'b']), pk: Some(p as u8) }).collect();
    for _ in 0..nreg {
        marks.push(MarkC { ty: *r.pick(&['i', 'l', 't', 'b']), pk: None });
    }
    r.shuffle(&mut marks);
    let ks = if r.chance(1, 25) { 99 } else { r.below(c.kss.len() as u64) as u32 };
    let cdc = r.chance(1, 20);
    if cdc {
        // CDC stream ids are 16-byte blobs: one blob key column
        marks.retain(|m| m.pk != Some(1) && m.pk != Some(2));
        for m in marks.iter_mut() {
            if m.pk == Some(0) {
                m.ty = 'b';
            }
        }
    }
    StmtC { ks, tb, cdc, lwt: r.chance(1, 5), serial: r.chance(1, 8), marks, api: *r.pick(&['u', 'u', 's', 'i']) }
}

fn gen_val(r: &mut Rng, ty: char) -> Vec<u8> {
    match ty {
        'i' => (r.u64() as i32).to_be_bytes().to_vec(),
        'l' => if r.chance(1, 10) { (r.range(0, 50) as i64 - 25).to_be_bytes().to_vec() } else { r.i64().to_be_bytes().to_vec() },
        't' => {
            let len = r.range(0, 20) as usize;
            (0..len).map(|_| if r.chance(1, 10) { b' ' } else { b'a' + r.below(26) as u8 }).collect()
        }
        _ => {
            let len = match r.below(8) { 0 => 0, 1 => 16, 2 => r.range(15, 17) as usize, _ => r.range(1, 40) as usize };
            r.bytes(len)
        }
    }
}
fn gen_vals(r: &mut Rng, st: &StmtC) -> Vec<Val> {
    st.marks
        .iter()
        .map(|m| if m.pk.is_none() && r.chance(1, 4) { Val::Null } else { Val::V(if st.cdc && m.pk.is_some() && r.chance(3, 4) { r.bytes(16) } else { gen_val(r, m.ty) }) })
        .collect()
}

/// token of a key, for aiming tablets at the keys that will be sent (Murmur3 through the real
/// prepared statement is not available before the session exists; aim is only a generator aid)
fn gen_tablet_ops(r: &mut Rng, c: &ClusterC, aim: &[i64]) -> Vec<TabOp> {
    let n = c.nodes.len() as u32;
    let nops = r.range(1, 8) as usize;
    let mut ops = Vec::new();
    let style = *r.pick(&[0u64, 0, 0, 1, 2, 2, 3, 4, 4]);
    for k in 0..nops {
        if r.chance(1, 7) && k > 0 {
            ops.push(TabOp::Refresh);
            continue;
        }
        // intra-node migration: the SAME range and hosts as an earlier payload, a CHANGED shard:
        // the later payload must replace the earlier tablet
        if k > 0 && r.chance(1, 4) {
            let prev: Vec<&TabOp> = ops.iter().filter(|o| matches!(o, TabOp::Learn { reps, .. } if !reps.is_empty())).collect();
            if !prev.is_empty() {
                if let TabOp::Learn { a, b, reps } = (*r.pick(&prev)).clone() {
                    let reps2: Vec<(u32, i32)> = reps
                        .iter()
                        .map(|(h, sh)| {
                            let nr = if *h <= n { c.nodes[*h as usize - 1].nr.max(1) as i32 } else { 4 };
                            (*h, if nr > 1 { (sh.rem_euclid(nr) + 1 + r.below(nr as u64 - 1) as i32) % nr } else { *sh })
                        })
                        .collect();
                    ops.push(TabOp::Learn { a, b, reps: reps2 });
                    continue;
                }
            }
        }
        // split / merge (C15's shapes): an earlier tablet is re-announced as its two halves, or the range of
        // two earlier neighbours as one tablet
        if style == 4 && k > 0 {
            let prev: Vec<(i64, i64)> = ops.iter().filter_map(|o| if let TabOp::Learn { a, b, .. } = o { if a < b { Some((*a, *b)) } else { None } } else { None }).collect();
            if !prev.is_empty() {
                let (pa, pb) = *r.pick(&prev);
                let mid = ((pa as i128 + pb as i128) / 2) as i64;
                let mk = |r: &mut Rng| -> Vec<(u32, i32)> {
                    let h = r.range(1, n as u64) as u32;
                    vec![(h, r.below(c.nodes[h as usize - 1].nr.max(1) as u64) as i32)]
                };
                if r.bool() && pa < mid && mid < pb {
                    let r1 = mk(r);
                    ops.push(TabOp::Learn { a: pa, b: mid, reps: r1 });
                    let r2 = mk(r);
                    ops.push(TabOp::Learn { a: mid, b: pb, reps: r2 });
                } else {
                    // merge with the right neighbour's range (or simply extend to the right)
                    let right = prev.iter().filter(|(x, _)| *x == pb).map(|(_, y)| *y).next().unwrap_or(pb.saturating_add(1 << 40));
                    let r1 = mk(r);
                    ops.push(TabOp::Learn { a: pa, b: right, reps: r1 });
                }
                continue;
            }
        }
        let (a, b) = match style {
            // a partition of the whole ring in a few tablets
            0 | 4 => {
                let parts = nops as i128;
                let lo = i64::MIN as i128 + (k as i128) * ((1i128 << 64) / parts);
                let hi = if k as i128 == parts - 1 { i64::MAX as i128 } else { i64::MIN as i128 + (k as i128 + 1) * ((1i128 << 64) / parts) };
                (lo.max(i64::MIN as i128) as i64, hi as i64)
            }
            // tablets around the tokens of keys that will be sent (may overlap: latest wins)
            1 | 2 if !aim.is_empty() => {
                let t = *r.pick(aim);
                let w = 1i64 << r.range(1, 62);
                match r.below(8) {
                    // the key's token on a boundary of the left-open range (a, b]
                    0 => (t.saturating_sub(1), t),
                    1 => (t, t.saturating_add(r.below(w as u64) as i64 + 1)),
                    2 => (t.saturating_sub(r.below(w as u64) as i64 + 1), t),
                    _ => (t.saturating_sub(r.below(w as u64) as i64 + 1), t.saturating_add(r.below(w as u64) as i64)),
                }
            }
            _ => {
                let x = r.i64();
                let y = r.i64();
                if r.chance(1, 10) { (x.max(y), x.min(y)) } else { (x.min(y), x.max(y)) }
            }
        };
        let lo_rep = if r.chance(1, 10) { 0 } else { 1 };
        let nrep = r.range(lo_rep, 3.min(n as u64 + 1)) as usize;
        let mut reps: Vec<(u32, i32)> = Vec::new();
        for _ in 0..nrep {
            // sometimes the same host again (a tablet listing one host twice, with another shard)
            let host = if r.chance(1, 12) { 900 + r.below(3) as u32 } else if !reps.is_empty() && r.chance(1, 10) { reps[0].0 } else { r.range(1, n as u64) as u32 };
            let nr = if host <= n { c.nodes[host as usize - 1].nr } else { 4 };
            let shard = match r.below(20) {
                0 => 70000 + r.below(3) as i32,          // does not fit u16: the pool falls back to shard 0
                1 => nr as i32 + r.below(3) as i32,      // out of the node's range
                2 if k == nops - 1 => -1,                // refused payload
                _ => r.below(nr.max(1) as u64) as i32,
            };
            reps.push((host, shard));
        }
        ops.push(TabOp::Learn { a, b, reps });
    }
    ops
}

/// A fixed share of the clusters is shaped so that its first kill round ALWAYS takes the refiller through a
/// rare branch (the coverage floors of those branches must not depend on luck):
/// ReqDrop: node 1 has 8 shards, PerShard(1), shard-aware port; it is resharded to 2 shards while all but one of
///   its connections are cut: 7 replacements aimed at 7 distinct old shards collide on 2 new ones, the surplus
///   of a requested connection is dropped at once;
/// Trim: node 1 has 4 shards, PerShard(1), plain port only; one connection is cut after the mock's round-robin
///   was shifted by one: the replacements land on covered shards first and wait in the excess list until the
///   missing shard arrives, then they are trimmed.
#[derive(Clone, Copy, PartialEq)]
enum Forced {
    ReqDrop,
    Trim,
    /// NtsGap (seeded change C12-3): 3-4 datacenters in ring order dc1, dc2, (dc4,) dc3; the only keyspace is
    /// NetworkTopologyStrategy {dc1: 1, dc3: 1} — dc2 (and dc4) exist but are NOT listed; the dc1 node is down, no
    /// datacenter is preferred, no statement is LWT.  Every token has the replicas [dc1 node (down), dc3 node]:
    /// half of the requests draw the unreachable replica first and take the slow path of choose_filtered, which
    /// must walk past the unlisted datacenters to find the reachable replica.
    NtsGap,
}
fn force_shape(c: &mut ClusterC, f: Forced, r: &mut Rng) {
    if f == Forced::NtsGap {
        let four = r.bool();
        let mk = |dc: u32, up: char, base: i64, r: &mut Rng| NodeC {
            dc,
            rack: 1,
            nr: *r.pick(&[0u16, 1, 2, 4]),
            msb: 12,
            up,
            flt: false,
            tokens: vec![base, base + 6_000_000_000_000_000_000, base + 6_000_000_000_000_000_000 + 5_000_000_000_000_000_000],
        };
        // the smallest tokens fix the order in which the datacenters first appear on the ring
        let mut nodes = vec![mk(1, if r.bool() { 'b' } else { 'a' }, -9_000_000_000_000_000_000, r), mk(2, 'u', -8_900_000_000_000_000_000, r)];
        if four {
            nodes.push(mk(4, 'u', -8_800_000_000_000_000_000, r));
        }
        nodes.push(mk(3, 'u', -8_700_000_000_000_000_000, r));
        c.nodes = nodes;
        c.kss = vec![KsC { strat: Strat::Nts(vec![(1, 1), (3, 1)]), tablets: false }];
        c.cfg.pol_pref = if r.bool() { Pref::Any } else { Pref::Inherit };
        c.cfg.sess_pref = Pref::Any;
        c.cfg.ta = true;
        return;
    }
    let n0 = &mut c.nodes[0];
    n0.up = 'u';
    n0.flt = false;
    if n0.tokens.is_empty() {
        n0.tokens.push(12345);
    }
    n0.nr = if f == Forced::ReqDrop { 8 } else { 4 };
    c.cfg.per_shard = true;
    c.cfg.pool_n = 1;
    c.cfg.no_sap = f == Forced::Trim;
}

async fn run_cluster(r: &mut Rng, c: &ClusterC, nkeys: usize, out: &mut Out, forced: Option<Forced>) {
    let nst = r.range(1, 3) as usize;
    let mut stmts: Vec<StmtC> = (0..nst).map(|i| gen_stmt(r, c, i as u32)).collect();
    if forced == Some(Forced::NtsGap) {
        for st in stmts.iter_mut() {
            st.ks = 0;
            st.lwt = false;
            st.serial = false;
        }
    }
    let mut cf = c.fields();
    // a scenario that cannot be set up is retried once (environment); then it is a counted not-run
    let mut run = match Running::start(c, &stmts).await {
        Ok(x) => x,
        Err(_) => match Running::start(c, &stmts).await {
            Ok(x) => x,
            Err(e) => {
                out.case(&format!("K {} {} - {}", cf, stmts[0].field(), "n"), &format!("skip:{} -", e.replace(char::is_whitespace, "_")));
                return;
            }
        },
    };
    for (case, o) in &run.ptie {
        out.case(case, o);
    }
    if let Some(f) = forced.filter(|f| *f != Forced::NtsGap) {
        let have = run.judged.values().filter(|(nd, _)| *nd == 0).count();
        let ok = match f {
            Forced::ReqDrop => run.kill_round(0, have - 1, 0, Some(2)).await,
            _ => run.kill_round(0, 1, 1, None).await,
        };
        if !ok {
            out.case(&format!("K {} {} - {}", cf, stmts[0].field(), "n"), "skip:refill-not-established -");
            run.stop();
            return;
        }
        for (case, o) in &run.ptie {
            out.case(case, o);
        }
        cf = run.c.fields();
    }
    // every statement is prepared first: tablet payloads for the tables are delivered interleaved
    let mut prepared: Vec<Option<PreparedStatement>> = Vec::new();
    for st in &stmts {
        match run.session.prepare(st.text()).await {
            Ok(mut p) => {
                if st.serial {
                    p.set_consistency(Consistency::Serial);
                }
                prepared.push(Some(p));
            }
            Err(e) => {
                out.case(&format!("K {} {} - {}", cf, st.field(), "n"), &format!("skip:prepare_{} -", format!("{:?}", e).replace(' ', "_")));
                prepared.push(None);
            }
        }
    }
    let per = (nkeys / nst).max(1);
    let keys: Vec<Vec<Vec<Val>>> = stmts.iter().map(|st| (0..per).map(|_| gen_vals(r, st)).collect()).collect();
    // the tablet operations of every table (aimed at the tokens of the keys, through the real statement)
    let mut pending: Vec<std::collections::VecDeque<TabOp>> = Vec::new();
    for (j, st) in stmts.iter().enumerate() {
        let aim: Vec<i64> = match &prepared[j] {
            Some(p) => keys[j]
                .iter()
                .filter_map(|k| {
                    let typed: Vec<Option<CqlValue>> = st.marks.iter().zip(k).map(|(m, v)| to_cql(m.ty, v)).collect();
                    p.calculate_token(&typed).ok().flatten().map(|t| t.value())
                })
                .collect(),
            None => vec![],
        };
        let tab_this = prepared[j].is_some() && (st.ks as usize) < c.kss.len() && (c.kss[st.ks as usize].tablets || r.chance(1, 8));
        pending.push(if tab_this { gen_tablet_ops(r, c, &aim).into() } else { Default::default() });
    }
    // history of each table: its own payloads + every refresh, in the order they were applied
    let mut hist: Vec<Vec<TabOp>> = vec![Vec::new(); nst];
    let mut broken = false;
    for j in 0..nst {
        let Some(p) = prepared[j].clone() else { continue };
        let st = &stmts[j];
        let split = r.below(pending[j].len() as u64 + 1) as usize;
        for phase in 0..2 {
            let mine = if phase == 0 { split } else { pending[j].len() };
            let mut done = 0;
            while done < mine && !broken {
                // interleave: sometimes a payload of ANOTHER table goes first
                let other: Vec<usize> = (0..nst).filter(|o| *o != j && prepared[*o].is_some() && !pending[*o].is_empty()).collect();
                let t = if !other.is_empty() && r.chance(1, 3) { *r.pick(&other) } else { done += 1; j };
                let Some(op) = pending[t].pop_front() else { continue };
                let pt = prepared[t].clone().unwrap();
                match run.apply(&stmts[t], &pt, &op).await {
                    Some(true) => {
                        if matches!(op, TabOp::Refresh) {
                            for h in hist.iter_mut() {
                                h.push(op.clone());
                            }
                        } else {
                            hist[t].push(op.clone());
                        }
                    }
                    Some(false) => {}
                    None => broken = true,
                }
            }
            if broken {
                out.case(&format!("K {} {} {} {}", cf, st.field(), tabs_s(&hist[j]), "n"), "skip:tablet-sync -");
                break;
            }
            let ks = if phase == 0 { &keys[j][..per / 4] } else { &keys[j][per / 4..] };
            for k in ks {
                let o = run.request(st, &p, k).await;
                out.case(&format!("K {} {} {} {}", cf, st.field(), tabs_s(&hist[j]), vals_s(k)), &o);
            }
        }
        if broken {
            break;
        }
        // connection loss and refill between statements (more often where the plain port makes excess
        // connections likely)
        if c.cfg.no_sap || r.bool() {
            let up: Vec<usize> = (0..c.nodes.len()).filter(|i| run.expected(*i, true) > 0).collect();
            let sharded: Vec<usize> = up.iter().copied().filter(|i| c.nodes[*i].nr > 1).collect();
            let i = if c.cfg.no_sap && !sharded.is_empty() { *r.pick(&sharded) } else { *r.pick(&up) };
            let have = run.judged.values().filter(|(nd, _)| *nd == i).count();
            // one cut connection + a shifted round-robin on the plain port = a guaranteed surplus connection
            let count = if c.cfg.no_sap && c.cfg.per_shard && r.bool() { 1 } else { match r.below(4) { 0 => have, 1 => 1, _ => r.range(1, have as u64) as usize } };
            let shift = if c.nodes[i].nr > 1 && r.chance(2, 3) { r.range(1, c.nodes[i].nr as u64 - 1) as usize } else { 0 };
            // resharding: the node comes back with another shard count (only between sharded configurations:
            // the shard-aware listener exists from the start or never)
            let cur = run.c.nodes[i].nr;
            let reshard = if cur > 0 && r.chance(1, 4) {
                let mut nr = r.range(1, 8) as u16;
                if nr == cur {
                    nr = nr % 8 + 1;
                }
                Some(nr)
            } else {
                None
            };
            let (shift, mut count) = if reshard.is_some() { (0, count.max(1)) } else { (shift, count) };
            // several replacement connections aimed (through the shard-aware port, with the OLD shard count) at
            // distinct shards of a node that now has only one or two: they collide, and the surplus of a
            // connection that was asked for a shard is dropped at once
            let mut reshard = reshard;
            if reshard.is_some() && c.cfg.per_shard && !c.cfg.no_sap && have >= 3 && cur > 2 && r.bool() {
                reshard = Some(r.range(1, 2) as u16);
                count = have - 1;
            }
            if !run.kill_round(i, count, shift, reshard).await {
                out.case(&format!("K {} {} {} {}", cf, st.field(), tabs_s(&hist[j]), "n"), "skip:refill-not-established -");
                broken = true;
                break;
            }
            for (case, o) in &run.ptie {
                out.case(case, o);
            }
            // after a resharding the cluster of the following requests has the new shard count
            cf = run.c.fields();
        }
    }
    // the refiller tie: the whole life of every node's pool
    if !broken && (run.still_established() || run.establish().await) {
        let _ = run.drain();
        for i in 0..c.nodes.len() {
            if !c.nodes[i].flt {
                let (case, o) = run.rline(i);
                out.case(&case, &o);
            }
        }
    }
    run.stop();
    drop(run);
}

async fn replay_line(case: &str, out: &mut Out) {
    let f: Vec<&str> = case.split_whitespace().collect();
    if f.len() == 4 && f[0] == "P" {
        // one node with that sharding and pool configuration; the same probing pass
        let (nr, msb) = f[1].split_once('.').unwrap();
        let (pool, nosap) = f[2].split_once('/').unwrap();
        let c = ClusterC {
            nodes: vec![NodeC { dc: 1, rack: 1, nr: u16::from_str_radix(nr, 16).unwrap(), msb: u8::from_str_radix(msb, 16).unwrap(), up: 'u', flt: false, tokens: vec![0] }],
            kss: vec![KsC { strat: Strat::Simple(1), tablets: false }],
            cfg: CfgC { per_shard: pool.starts_with('S'), pool_n: usize::from_str_radix(&pool[1..], 16).unwrap(), no_sap: nosap == "1", pol_pref: Pref::Any, ta: true, fo: false, shuf: true, sess_pref: Pref::Any },
        };
        match Running::start(&c, &[]).await {
            Ok(run) => {
                match run.ptie.iter().find(|(cs, _)| cs == case) {
                    Some((_, o)) => out.case(case, o),
                    None => out.case(case, "skip:no-such-probe -"),
                }
                run.stop();
            }
            Err(e) => out.case(case, &format!("skip:{} -", e.replace(char::is_whitespace, "_"))),
        }
        return;
    }
    if f.len() == 4 && f[0] == "R" {
        let (nr, msb) = f[1].split_once('.').unwrap();
        let (pool, nosap) = f[2].split_once('/').unwrap();
        let c = ClusterC {
            nodes: vec![NodeC { dc: 1, rack: 1, nr: u16::from_str_radix(nr, 16).unwrap(), msb: u8::from_str_radix(msb, 16).unwrap(), up: 'u', flt: false, tokens: vec![0] }],
            kss: vec![KsC { strat: Strat::Simple(1), tablets: false }],
            cfg: CfgC { per_shard: pool.starts_with('S'), pool_n: usize::from_str_radix(&pool[1..], 16).unwrap(), no_sap: nosap == "1", pol_pref: Pref::Any, ta: true, fo: false, shuf: true, sess_pref: Pref::Any },
        };
        match Running::start(&c, &[]).await {
            Ok(mut run) => {
                let mut ok = true;
                if f[3] != "-" {
                    for k in f[3].split(',') {
                        let (reshard, kk) = match k.strip_prefix('s') {
                            Some(rest) => {
                                let (nr, kk) = rest.split_once('k').unwrap();
                                (Some(u16::from_str_radix(nr, 16).unwrap()), kk.to_string())
                            }
                            None => (None, k[1..].to_string()),
                        };
                        let (kk, shift) = match kk.split_once('+') {
                            Some((a, b)) => (a.to_string(), usize::from_str_radix(b, 16).unwrap()),
                            None => (kk, 0),
                        };
                        let want = usize::from_str_radix(&kk, 16).unwrap();
                        if !run.kill_round(0, want, shift, reshard).await {
                            ok = false;
                            break;
                        }
                    }
                }
                if ok {
                    let _ = run.drain();
                    let (_, o) = run.rline(0);
                    out.case(case, &o);
                } else {
                    out.case(case, "skip:refill-not-established -");
                }
                run.stop();
            }
            Err(e) => out.case(case, &format!("skip:{} -", e.replace(char::is_whitespace, "_"))),
        }
        return;
    }
    if f.len() != 8 || f[0] != "K" {
        out.case(case, "error bad-case");
        return;
    }
    let c = ClusterC::parse(f[1], f[2], f[3], f[4]);
    let st = StmtC::parse(f[5]);
    let hist = tabs_p(f[6]);
    let vals = vals_p(f[7]);
    let mut run = match Running::start(&c, std::slice::from_ref(&st)).await {
        Ok(x) => x,
        Err(e) => {
            out.case(case, &format!("skip:{} -", e.replace(char::is_whitespace, "_")));
            return;
        }
    };
    let p = match run.session.prepare(st.text()).await {
        Ok(mut p) => {
            if st.serial {
                p.set_consistency(Consistency::Serial);
            }
            p
        }
        Err(_) => {
            out.case(case, "skip:prepare -");
            run.stop();
            return;
        }
    };
    for op in &hist {
        if run.apply(&st, &p, op).await != Some(true) {
            out.case(case, "skip:tablet-sync -");
            run.stop();
            return;
        }
    }
    let o = run.request(&st, &p, &vals).await;
    out.case(case, &o);
    run.stop();
}

fn main() {
    let a = parse_args();
    let mut out = Out::create(&a.out);
    let rt = tokio::runtime::Builder::new_multi_thread().worker_threads(4).enable_all().build().unwrap();
    rt.block_on(async {
        if let Some(p) = &a.replay {
            for c in read_cases(p) {
                replay_line(&c, &mut out).await;
            }
            return;
        }
        let nkeys = if a.tier == "thorough" { 240 } else { 100 };
        let mut r = Rng::new(a.seed ^ 0xC12C_12C1_2C12);
        for idx in 0..a.n {
            let mut c = gen_cluster(&mut r);
            // one cluster in twenty of each forced shape
            let forced = match idx % 20 { 3 => Some(Forced::ReqDrop), 13 => Some(Forced::Trim), 7 => Some(Forced::NtsGap), _ => None };
            if let Some(f) = forced {
                force_shape(&mut c, f, &mut r);
            }
            run_cluster(&mut r, &c, nkeys, &mut out, forced).await;
        }
    });
    out.finish();
}
