//! C16 runner: a fixed family of structs deriving SerializeValue / DeserializeValue /
//! SerializeRow / DeserializeRow with every #[scylla(...)] attribute combination.  Each struct is
//! registered with its *descriptor text* (hand-written next to the struct; the very same text is
//! what the Coq model is run on, so a wrong descriptor shows up as a disagreement).  For each
//! struct the runner enumerates DB-side field / column lists (permutations, missing and extra
//! fields at every position, duplicates, type changes), values and null patterns, runs the REAL
//! derived code and writes "<case> | <observed>" lines.  See ocaml/c16/driver.ml for the format.
#![allow(dead_code)]
use scylla::{DeserializeRow, DeserializeValue, SerializeRow, SerializeValue};
use scylla_cql_core::deserialize::row::ColumnIterator;
// the traits (type namespace); the names imported from `scylla` above are the derive macros
use scylla_cql_core::deserialize::row::DeserializeRow;
use scylla_cql_core::deserialize::value::DeserializeValue;
use scylla_cql_core::serialize::row::SerializeRow;
use scylla_cql_core::serialize::value::SerializeValue;
use scylla_cql_core::deserialize::{DeserializationError, FrameSlice, TypeCheckError};
use scylla_cql_core::frame::response::result::{
    ColumnSpec, ColumnType, NativeType, TableSpec, UserDefinedType,
};
use scylla_cql_core::serialize::SerializationError;
use scylla_cql_core::serialize::row::RowSerializationContext;
use scylla_cql_core::serialize::writers::{CellWriter, RowWriter};
use std::panic::AssertUnwindSafe;
use std::sync::Arc;
use vh::*;

type Cell = Option<Vec<u8>>;

// ------------------------------------------------------------------ struct <-> cells glue

trait Fam: Sized {
    fn build(it: &mut std::slice::Iter<'_, Cell>) -> Result<Self, String>;
    fn dump(&self, out: &mut Vec<Cell>);
}
impl Fam for i32 {
    fn build(it: &mut std::slice::Iter<'_, Cell>) -> Result<Self, String> {
        match it.next() {
            Some(Some(b)) if b.len() == 4 => Ok(i32::from_be_bytes([b[0], b[1], b[2], b[3]])),
            _ => Err("bad i32 value".into()),
        }
    }
    fn dump(&self, out: &mut Vec<Cell>) {
        out.push(Some(self.to_be_bytes().to_vec()));
    }
}
impl Fam for String {
    fn build(it: &mut std::slice::Iter<'_, Cell>) -> Result<Self, String> {
        match it.next() {
            Some(Some(b)) => String::from_utf8(b.clone()).map_err(|_| "bad utf8 value".to_string()),
            _ => Err("bad String value".into()),
        }
    }
    fn dump(&self, out: &mut Vec<Cell>) {
        out.push(Some(self.as_bytes().to_vec()));
    }
}
impl Fam for Option<i32> {
    fn build(it: &mut std::slice::Iter<'_, Cell>) -> Result<Self, String> {
        match it.next() {
            Some(None) => Ok(None),
            Some(Some(b)) if b.len() == 4 => Ok(Some(i32::from_be_bytes([b[0], b[1], b[2], b[3]]))),
            _ => Err("bad Option<i32> value".into()),
        }
    }
    fn dump(&self, out: &mut Vec<Cell>) {
        out.push(self.map(|v| v.to_be_bytes().to_vec()));
    }
}
impl Fam for Option<String> {
    fn build(it: &mut std::slice::Iter<'_, Cell>) -> Result<Self, String> {
        match it.next() {
            Some(None) => Ok(None),
            Some(Some(b)) => String::from_utf8(b.clone()).map(Some).map_err(|_| "bad utf8 value".to_string()),
            _ => Err("bad Option<String> value".into()),
        }
    }
    fn dump(&self, out: &mut Vec<Cell>) {
        out.push(self.as_ref().map(|v| v.as_bytes().to_vec()));
    }
}

/// Defines a struct of the family (attributes passed through verbatim) and its Fam glue.
macro_rules! fam {
    ($(#[$sm:meta])* struct $name:ident { $($(#[$fm:meta])* $f:ident : $t:ty),* $(,)? }) => {
        $(#[$sm])*
        #[derive(Debug, Clone, PartialEq)]
        struct $name { $($(#[$fm])* $f: $t),* }
        impl Fam for $name {
            #[allow(unused_variables)]
            fn build(it: &mut std::slice::Iter<'_, Cell>) -> Result<Self, String> {
                Ok($name { $($f: <$t as Fam>::build(it)?),* })
            }
            #[allow(unused_variables)]
            fn dump(&self, out: &mut Vec<Cell>) { $(self.$f.dump(out);)* }
        }
    };
}

// ------------------------------------------------------------------ the family: UDT values

fam! { #[derive(SerializeValue, DeserializeValue)]
struct V01 { a: i32, b: String, c: Option<i32> } }
fam! { #[derive(SerializeValue, DeserializeValue)]
struct V02 { a: i32, b: String, c: Option<i32>, d: i32, e: Option<String>, f: String } }
fam! { #[derive(SerializeValue, DeserializeValue)]
struct V03 { #[scylla(rename = "x")] a: i32, b: String } }
fam! { #[derive(SerializeValue, DeserializeValue)]
struct V04 { #[scylla(rename = "b")] a: i32, #[scylla(rename = "a")] b: String } }
fam! { #[derive(SerializeValue, DeserializeValue)]
struct V05 { a: i32, #[scylla(skip)] s: String, b: String } }
// the F1 shape: an allow_missing field declared before a required one
fam! { #[derive(SerializeValue, DeserializeValue)]
struct V06 { #[scylla(allow_missing)] a: i32, b: i32 } }
fam! { #[derive(SerializeValue, DeserializeValue)]
struct V07 { a: i32, #[scylla(allow_missing)] b: String, c: Option<i32> } }
fam! { #[derive(SerializeValue, DeserializeValue)]
struct V08 { #[scylla(allow_missing)] a: i32, b: String, #[scylla(allow_missing)] c: Option<i32>, d: i32 } }
fam! { #[derive(SerializeValue, DeserializeValue)]
struct V09 { #[scylla(default_when_null)] a: i32, #[scylla(default_when_null)] b: String, c: Option<i32> } }
fam! { #[derive(SerializeValue, DeserializeValue)] #[scylla(forbid_excess_udt_fields)]
struct V10 { a: i32, b: String } }
fam! { #[derive(SerializeValue, DeserializeValue)] #[scylla(forbid_excess_udt_fields)]
struct V11 { #[scylla(allow_missing)] a: i32, b: String, #[scylla(allow_missing)] c: Option<i32> } }
fam! { #[derive(SerializeValue, DeserializeValue)]
struct V12 {
    #[scylla(rename = "q", allow_missing, default_when_null)] a: i32,
    #[scylla(skip)] s: i32,
    #[scylla(default_when_null)] b: String,
    #[scylla(allow_missing)] c: Option<String>,
} }
fam! { #[derive(SerializeValue, DeserializeValue)]
struct V13 { a: Option<i32> } }
fam! { #[derive(SerializeValue, DeserializeValue)] #[scylla(flavor = "enforce_order")]
struct V14 { a: i32, b: String, c: Option<i32> } }
fam! { #[derive(SerializeValue, DeserializeValue)] #[scylla(flavor = "enforce_order", forbid_excess_udt_fields)]
struct V15 { a: i32, b: String, c: Option<i32> } }
fam! { #[derive(SerializeValue, DeserializeValue)] #[scylla(flavor = "enforce_order")]
struct V16 { #[scylla(rename = "b")] a: i32, #[scylla(rename = "a")] b: String, c: i32 } }
fam! { #[derive(SerializeValue, DeserializeValue)] #[scylla(flavor = "enforce_order")]
struct V17 { a: i32, #[scylla(skip)] s: Option<i32>, b: String, #[scylla(skip)] t: String } }
fam! { #[derive(SerializeValue, DeserializeValue)] #[scylla(flavor = "enforce_order")]
struct V18 { a: i32, #[scylla(allow_missing)] b: String, c: Option<i32> } }
fam! { #[derive(SerializeValue, DeserializeValue)] #[scylla(flavor = "enforce_order")]
struct V19 { a: i32, #[scylla(allow_missing)] b: String, #[scylla(allow_missing)] c: Option<i32> } }
fam! { #[derive(SerializeValue, DeserializeValue)] #[scylla(flavor = "enforce_order")]
struct V20 { #[scylla(allow_missing)] a: i32, b: i32 } }
fam! { #[derive(SerializeValue, DeserializeValue)] #[scylla(flavor = "enforce_order")]
struct V21 { #[scylla(default_when_null)] a: i32, b: Option<String>, #[scylla(default_when_null)] c: String } }
fam! { #[derive(SerializeValue, DeserializeValue)] #[scylla(flavor = "enforce_order", skip_name_checks)]
struct V22 { a: i32, b: String, c: Option<i32> } }
fam! { #[derive(SerializeValue, DeserializeValue)] #[scylla(flavor = "enforce_order", skip_name_checks, forbid_excess_udt_fields)]
struct V23 { a: i32, #[scylla(allow_missing)] b: String, #[scylla(allow_missing)] c: Option<i32> } }
fam! { #[derive(SerializeValue, DeserializeValue)] #[scylla(flavor = "enforce_order", skip_name_checks)]
struct V24 { a: i32, #[scylla(skip)] s: i32, b: i32 } }
fam! { #[derive(SerializeValue, DeserializeValue)] #[scylla(flavor = "enforce_order", forbid_excess_udt_fields)]
struct V25 { #[scylla(default_when_null)] a: i32, #[scylla(allow_missing, default_when_null)] b: String, c: Option<i32> } }
fam! { #[derive(SerializeValue, DeserializeValue)]
struct V26 { #[scylla(allow_missing)] a: i32, #[scylla(allow_missing)] b: Option<String> } }
fam! { #[derive(SerializeValue, DeserializeValue)]
struct V27 { a: i32, b: i32, c: i32, d: i32 } }
fam! { #[derive(SerializeValue, DeserializeValue)] #[scylla(flavor = "enforce_order")]
struct V28 { a: i32, #[scylla(allow_missing)] b: i32, c: i32, #[scylla(allow_missing)] d: i32, e: i32 } }

fam! { #[derive(SerializeValue, DeserializeValue)] #[scylla(forbid_excess_udt_fields)]
struct V29 { #[scylla(rename = "x")] a: i32, #[scylla(skip)] s: String, #[scylla(default_when_null)] b: String, c: Option<i32> } }
fam! { #[derive(SerializeValue, DeserializeValue)] #[scylla(flavor = "enforce_order")]
struct V30 { #[scylla(rename = "x")] a: i32, #[scylla(rename = "y", allow_missing)] b: String, c: Option<i32> } }
fam! { #[derive(SerializeValue, DeserializeValue)] #[scylla(flavor = "enforce_order", skip_name_checks)]
struct V31 { #[scylla(default_when_null)] a: i32, #[scylla(default_when_null)] b: String, #[scylla(allow_missing)] c: Option<i32> } }
// six bound fields with attributes
fam! { #[derive(SerializeValue, DeserializeValue)]
struct V32 {
    #[scylla(allow_missing)] a: i32,
    #[scylla(rename = "x", default_when_null)] b: String,
    #[scylla(skip)] s: i32,
    c: Option<i32>,
    #[scylla(allow_missing, default_when_null)] d: i32,
    e: Option<String>,
    f: String,
} }
fam! { #[derive(SerializeValue, DeserializeValue)] #[scylla(flavor = "enforce_order", forbid_excess_udt_fields)]
struct V33 { #[scylla(rename = "x", default_when_null)] a: i32, #[scylla(skip)] s: String, b: String, #[scylla(allow_missing)] c: Option<i32> } }

// ------------------------------------------------------------------ the family: rows

fam! { #[derive(SerializeRow, DeserializeRow)]
struct R01 { a: i32, b: String, c: Option<i32> } }
fam! { #[derive(SerializeRow, DeserializeRow)]
struct R02 { a: i32, b: String, c: Option<i32>, d: i32, e: Option<String>, f: String } }
fam! { #[derive(SerializeRow, DeserializeRow)]
struct R03 { #[scylla(rename = "x")] a: i32, b: String } }
fam! { #[derive(SerializeRow, DeserializeRow)]
struct R04 { a: i32, #[scylla(skip)] s: String, b: String } }
fam! { #[derive(SerializeRow, DeserializeRow)]
struct R05 { #[scylla(default_when_null)] a: i32, #[scylla(default_when_null)] b: String, #[scylla(default_when_null)] c: Option<i32> } }
fam! { #[derive(SerializeRow, DeserializeRow)]
struct R06 { #[scylla(rename = "z", default_when_null)] a: i32, #[scylla(skip)] s: i32, b: String, #[scylla(default_when_null)] c: Option<i32> } }
fam! { #[derive(SerializeRow, DeserializeRow)] #[scylla(flavor = "enforce_order")]
struct R07 { a: i32, b: String, c: Option<i32> } }
fam! { #[derive(SerializeRow, DeserializeRow)] #[scylla(flavor = "enforce_order")]
struct R08 { #[scylla(rename = "b")] a: i32, #[scylla(skip)] s: String, #[scylla(rename = "a")] b: String } }
fam! { #[derive(SerializeRow, DeserializeRow)] #[scylla(flavor = "enforce_order", skip_name_checks)]
struct R09 { a: i32, #[scylla(skip)] s: i32, b: String } }
fam! { #[derive(SerializeRow, DeserializeRow)] #[scylla(flavor = "enforce_order")]
struct R10 { #[scylla(default_when_null)] a: i32, b: Option<String> } }
fam! { #[derive(SerializeRow, DeserializeRow)]
struct R11 { a: Option<i32> } }
fam! { #[derive(SerializeRow, DeserializeRow)]
struct R12 { #[scylla(rename = "b")] a: i32, #[scylla(rename = "a")] b: String } }

fam! { #[derive(SerializeRow, DeserializeRow)] #[scylla(flavor = "enforce_order")]
struct R13 { #[scylla(rename = "x", default_when_null)] a: i32, #[scylla(skip)] s: String, #[scylla(default_when_null)] b: Option<String> } }
fam! { #[derive(SerializeRow, DeserializeRow)] #[scylla(flavor = "enforce_order", skip_name_checks)]
struct R14 { #[scylla(default_when_null)] a: i32, b: String } }
fam! { #[derive(SerializeRow, DeserializeRow)]
struct R15 { #[scylla(rename = "x", default_when_null)] a: i32, #[scylla(rename = "y", default_when_null)] b: Option<String>, c: String } }

// flatten: SerializeRow only (DeserializeRow has no flatten)
fam! { #[derive(SerializeRow)]
struct Q1 { y: String, z: Option<i32> } }
fam! { #[derive(SerializeRow)]
struct F01 { x: i32, #[scylla(flatten)] q: Q1 } }
fam! { #[derive(SerializeRow)]
struct Q2a { a: i32, b: String } }
fam! { #[derive(SerializeRow)]
struct Q2b { c: Option<i32> } }
fam! { #[derive(SerializeRow)]
struct F02 { #[scylla(flatten)] q1: Q2a, m: i32, #[scylla(flatten)] q2: Q2b } }
fam! { #[derive(SerializeRow)]
struct Q3r { c: i32, d: String } }
fam! { #[derive(SerializeRow)]
struct Q3 { b: String, #[scylla(flatten)] r: Q3r } }
fam! { #[derive(SerializeRow)]
struct F03 { a: i32, #[scylla(flatten)] q: Q3 } }
fam! { #[derive(SerializeRow)]
struct Q4 { #[scylla(rename = "w")] u: i32, #[scylla(skip)] s: String, v: String } }
fam! { #[derive(SerializeRow)]
struct F04 { #[scylla(flatten)] q: Q4, #[scylla(rename = "u")] a: i32 } }
fam! { #[derive(SerializeRow)]
struct F05 { a: i32, #[scylla(flatten, skip)] q: Q1, b: String } }
// a parent column shadows a column of the flattened struct (the macro does not reject this)
fam! { #[derive(SerializeRow)]
struct Q6 { a: i32, b: String } }
fam! { #[derive(SerializeRow)]
struct F06 { a: i32, #[scylla(flatten)] q: Q6 } }
fam! { #[derive(SerializeRow)] #[scylla(flavor = "enforce_order")]
struct Q7 { b: String, c: Option<i32> } }
fam! { #[derive(SerializeRow)] #[scylla(flavor = "enforce_order")]
struct F07 { a: i32, #[scylla(flatten)] q: Q7, d: i32 } }
fam! { #[derive(SerializeRow)] #[scylla(flavor = "enforce_order", skip_name_checks)]
struct Q8 { b: String, c: Option<i32> } }
fam! { #[derive(SerializeRow)] #[scylla(flavor = "enforce_order")]
struct F08 { a: i32, #[scylla(flatten)] q: Q8 } }
fam! { #[derive(SerializeRow)] #[scylla(flavor = "enforce_order", skip_name_checks)]
struct F09 { a: i32, #[scylla(flatten)] q: Q7 } }
fam! { #[derive(SerializeRow)]
struct Q10 { #[scylla(flatten)] r: Q2b, e: i32 } }
fam! { #[derive(SerializeRow)]
struct F10 { #[scylla(flatten)] q: Q10, #[scylla(flatten)] p: Q1 } }

fam! { #[derive(SerializeRow)] #[scylla(flavor = "enforce_order")]
struct Q13r { c: i32, d: String } }
fam! { #[derive(SerializeRow)] #[scylla(flavor = "enforce_order")]
struct Q13 { b: String, #[scylla(flatten)] r: Q13r } }
fam! { #[derive(SerializeRow)] #[scylla(flavor = "enforce_order")]
struct F13 { a: i32, #[scylla(flatten)] q: Q13 } }
fam! { #[derive(SerializeRow)] #[scylla(flavor = "enforce_order")]
struct Q14 { #[scylla(rename = "w")] u: i32, #[scylla(skip)] s: String, v: String } }
fam! { #[derive(SerializeRow)] #[scylla(flavor = "enforce_order")]
struct F14 { #[scylla(flatten)] q: Q14, z: i32 } }
fam! { #[derive(SerializeRow)] #[scylla(flavor = "enforce_order", skip_name_checks)]
struct F15 { a: i32, #[scylla(flatten)] q: Q8 } }

// skip_name_checks mixes through two levels of ordered flatten
fam! { #[derive(SerializeRow)] #[scylla(flavor = "enforce_order", skip_name_checks)]
struct Q16 { b: String, #[scylla(flatten)] r: Q13r } }
fam! { #[derive(SerializeRow)] #[scylla(flavor = "enforce_order")]
struct F16 { a: i32, #[scylla(flatten)] q: Q16 } }
fam! { #[derive(SerializeRow)] #[scylla(flavor = "enforce_order", skip_name_checks)]
struct Q17r { c: i32, d: String } }
fam! { #[derive(SerializeRow)] #[scylla(flavor = "enforce_order")]
struct Q17 { b: String, #[scylla(flatten)] r: Q17r } }
fam! { #[derive(SerializeRow)] #[scylla(flavor = "enforce_order", skip_name_checks)]
struct F17 { a: i32, #[scylla(flatten)] q: Q17 } }

// an empty struct, flattened (the shape of finding F16, fixed in /repo fb90e43)
fam! { #[derive(SerializeRow)]
struct E0 {} }
fam! { #[derive(SerializeRow)]
struct F11 { #[scylla(flatten)] e: E0, x: i32 } }
fam! { #[derive(SerializeRow)]
struct F12 { #[scylla(flatten)] e: E0, #[scylla(flatten)] q: Q2b } }

// ------------------------------------------------------------------ generics, lifetimes, crate path
// The generated ALGORITHM is the same as for the plain structs (the macros only add lifetime and
// trait bounds / another path prefix); these four tie that claim.  Instantiated as <'static, i32>;
// the borrowed strings and frames are leaked (a few hundred cases only).
impl Fam for &'static str {
    fn build(it: &mut std::slice::Iter<'_, Cell>) -> Result<Self, String> {
        String::build(it).map(|s| &*Box::leak(s.into_boxed_str()))
    }
    fn dump(&self, out: &mut Vec<Cell>) {
        out.push(Some(self.as_bytes().to_vec()));
    }
}
// The reading derives do not compile for a struct with a type parameter (see docs/C16.md), so the
// two structs with a type parameter are write-only.
// fam! { (written out by hand: the macro has no generics)
#[derive(SerializeValue, Debug, Clone, PartialEq)]
struct G01<'a, T: SerializeValue> { #[scylla(rename = "x")] a: &'a str, b: T, #[scylla(allow_missing)] c: Option<i32> }
impl Fam for G01<'static, i32> {
    fn build(it: &mut std::slice::Iter<'_, Cell>) -> Result<Self, String> {
        Ok(G01 { a: Fam::build(it)?, b: Fam::build(it)?, c: Fam::build(it)? })
    }
    fn dump(&self, out: &mut Vec<Cell>) {
        self.a.dump(out);
        self.b.dump(out);
        self.c.dump(out);
    }
}
// fam! { (written out by hand: lifetime parameter)
#[derive(SerializeValue, DeserializeValue, Debug, Clone, PartialEq)]
struct L01<'a> { #[scylla(rename = "x")] a: &'a str, b: i32, #[scylla(allow_missing)] c: Option<i32> }
impl Fam for L01<'static> {
    fn build(it: &mut std::slice::Iter<'_, Cell>) -> Result<Self, String> {
        Ok(L01 { a: Fam::build(it)?, b: Fam::build(it)?, c: Fam::build(it)? })
    }
    fn dump(&self, out: &mut Vec<Cell>) {
        self.a.dump(out);
        self.b.dump(out);
        self.c.dump(out);
    }
}
// fam! { (written out by hand: the macro has no generics)
#[derive(SerializeRow, Debug, Clone, PartialEq)]
struct GR1<'a, T: SerializeValue> { a: &'a str, #[scylla(rename = "y")] b: T }
impl Fam for GR1<'static, i32> {
    fn build(it: &mut std::slice::Iter<'_, Cell>) -> Result<Self, String> {
        Ok(GR1 { a: Fam::build(it)?, b: Fam::build(it)? })
    }
    fn dump(&self, out: &mut Vec<Cell>) {
        self.a.dump(out);
        self.b.dump(out);
    }
}
// fam! { (written out by hand: lifetime parameter)
#[derive(SerializeRow, DeserializeRow, Debug, Clone, PartialEq)]
struct LR1<'a> { a: &'a str, #[scylla(default_when_null)] b: i32 }
impl Fam for LR1<'static> {
    fn build(it: &mut std::slice::Iter<'_, Cell>) -> Result<Self, String> {
        Ok(LR1 { a: Fam::build(it)?, b: Fam::build(it)? })
    }
    fn dump(&self, out: &mut Vec<Cell>) {
        self.a.dump(out);
        self.b.dump(out);
    }
}
fam! { #[derive(SerializeValue, DeserializeValue)] #[scylla(crate = scylla_cql_core, flavor = "enforce_order")]
struct K01 { a: i32, #[scylla(rename = "x", allow_missing)] b: String } }
fam! { #[derive(SerializeRow, DeserializeRow)] #[scylla(crate = scylla_cql_core)]
struct KR1 { #[scylla(rename = "x")] a: i32, #[scylla(skip)] s: i32, b: Option<String> } }

/// type_check + deserialize for a struct that borrows from the frame: metadata and frame are leaked
/// so that they outlive the ('static) value.
fn de_value_l01(typ: &ColumnType<'static>, framed: &[u8]) -> String {
    let typ: &'static ColumnType<'static> = Box::leak(Box::new(typ.clone()));
    let bytes: &'static bytes::Bytes = Box::leak(Box::new(bytes::Bytes::copy_from_slice(framed)));
    let r = catch(AssertUnwindSafe(|| -> String {
        if let Err(e) = <L01<'static> as DeserializeValue<'static, 'static>>::type_check(typ) {
            return format!("tck {}", tck_err_str(&e));
        }
        let mut fs = FrameSlice::new(bytes);
        let v = match fs.read_cql_bytes() {
            Ok(v) => v,
            Err(_) => return "des RawFrame".into(),
        };
        match <L01<'static> as DeserializeValue<'static, 'static>>::deserialize(typ, v) {
            Ok(t) => {
                let mut out = vec![];
                t.dump(&mut out);
                format!("ok {}", cells_str(&out))
            }
            Err(e) => format!("des {}", des_err_str(&e)),
        }
    }));
    r.unwrap_or_else(|_| "panic".into())
}
fn run_sv_l01(vals: &[Cell], typ: &ColumnType<'static>) -> String {
    match ser_value::<L01<'static>>(vals, typ) {
        Err(s) => s,
        Ok(b) => format!("ok {} rt {}", hex_bytes(&b), de_value_l01(typ, &b)),
    }
}
fn de_row_lr1(specs: &[ColumnSpec<'static>], framed: &[u8]) -> String {
    let specs: &'static [ColumnSpec<'static>] = Box::leak(specs.to_vec().into_boxed_slice());
    let bytes: &'static bytes::Bytes = Box::leak(Box::new(bytes::Bytes::copy_from_slice(framed)));
    let r = catch(AssertUnwindSafe(|| -> String {
        if let Err(e) = <LR1<'static> as DeserializeRow<'static, 'static>>::type_check(specs) {
            return format!("tck {}", tck_err_str(&e));
        }
        let it = ColumnIterator::new(specs, FrameSlice::new(bytes));
        match <LR1<'static> as DeserializeRow<'static, 'static>>::deserialize(it) {
            Ok(t) => {
                let mut out = vec![];
                t.dump(&mut out);
                format!("ok {}", cells_str(&out))
            }
            Err(e) => format!("des {}", des_err_str(&e)),
        }
    }));
    r.unwrap_or_else(|_| "panic".into())
}
fn run_sr_lr1(vals: &[Cell], specs: &[ColumnSpec<'static>]) -> String {
    match ser_row::<LR1<'static>>(vals, specs) {
        Err(s) => s,
        Ok(b) => format!("ok {} rt {}", hex_bytes(&b), de_row_lr1(specs, &b)),
    }
}

// ------------------------------------------------------------------ nested derived structs (kind NV)
// Field types that are themselves derived structs: UDT in UDT, Option<Struct>, Vec<Struct>, a derived
// UDT struct as a column of a derived row, an ordered parent with a by-name child.  There is no Coq
// model of the nesting (docs/C16.md, Residual); these cases are judged by the property itself: for a
// valid DB type (any order of the outer and of the inner fields, extra fields, the allow_missing
// inner field absent) serialization must succeed and type_check + deserialize of the produced bytes
// must give the value back.
fam! { #[derive(SerializeValue, DeserializeValue)]
struct In1 { x: i32, y: Option<String>, #[scylla(allow_missing)] z: Option<i32> } }
impl Fam for Option<In1> {
    fn build(it: &mut std::slice::Iter<'_, Cell>) -> Result<Self, String> {
        match it.next() {
            Some(None) => Ok(None),
            Some(Some(_)) => In1::build(it).map(Some),
            None => Err("missing Option marker".into()),
        }
    }
    fn dump(&self, out: &mut Vec<Cell>) {
        match self {
            None => out.push(None),
            Some(v) => {
                out.push(Some(vec![]));
                v.dump(out);
            }
        }
    }
}
impl Fam for Vec<In1> {
    fn build(it: &mut std::slice::Iter<'_, Cell>) -> Result<Self, String> {
        let n = match it.next() {
            Some(Some(b)) if b.len() == 1 => b[0] as usize,
            _ => return Err("missing Vec count".into()),
        };
        (0..n).map(|_| In1::build(it)).collect()
    }
    fn dump(&self, out: &mut Vec<Cell>) {
        out.push(Some(vec![self.len() as u8]));
        for v in self {
            v.dump(out);
        }
    }
}
impl Fam for std::collections::BTreeMap<i32, In1> {
    fn build(it: &mut std::slice::Iter<'_, Cell>) -> Result<Self, String> {
        let n = match it.next() {
            Some(Some(b)) if b.len() == 1 => b[0] as usize,
            _ => return Err("missing map count".into()),
        };
        (0..n).map(|_| Ok((i32::build(it)?, In1::build(it)?))).collect()
    }
    fn dump(&self, out: &mut Vec<Cell>) {
        out.push(Some(vec![self.len() as u8]));
        for (k, v) in self {
            k.dump(out);
            v.dump(out);
        }
    }
}
impl Fam for (i32, In1) {
    fn build(it: &mut std::slice::Iter<'_, Cell>) -> Result<Self, String> {
        Ok((i32::build(it)?, In1::build(it)?))
    }
    fn dump(&self, out: &mut Vec<Cell>) {
        self.0.dump(out);
        self.1.dump(out);
    }
}
fam! { #[derive(SerializeValue, DeserializeValue)]
struct N05 { a: i32, s: Vec<In1> } }
fam! { #[derive(SerializeValue, DeserializeValue)]
struct N06 { a: i32, m: std::collections::BTreeMap<i32, In1> } }
fam! { #[derive(SerializeValue, DeserializeValue)]
struct N07 { a: i32, t: (i32, In1) } }
fam! { #[derive(SerializeValue, DeserializeValue)]
struct N01 { a: i32, #[scylla(rename = "in")] inner: In1, c: String } }
fam! { #[derive(SerializeValue, DeserializeValue)]
struct N02 { a: i32, o: Option<In1> } }
fam! { #[derive(SerializeValue, DeserializeValue)]
struct N03 { a: i32, v: Vec<In1> } }
fam! { #[derive(SerializeValue, DeserializeValue)] #[scylla(flavor = "enforce_order")]
struct N04 { a: i32, inner: In1 } }
fam! { #[derive(SerializeRow, DeserializeRow)]
struct NR1 { k: i32, u: In1 } }

fn permute<T: Clone>(xs: &[T], perm: &str) -> Option<Vec<T>> {
    let idx: Vec<usize> = perm.chars().filter_map(|c| c.to_digit(10).map(|d| d as usize)).collect();
    let mut seen = vec![false; xs.len()];
    if idx.len() != xs.len() || idx.iter().any(|&i| i >= xs.len() || std::mem::replace(&mut seen[i], true)) {
        return None;
    }
    Some(idx.iter().map(|&i| xs[i].clone()).collect())
}
/// the inner UDT type: fields x, y, z in the order `perm`; flag 'm' drops z, 'f' adds a foreign field
fn inner_type(perm: &str, flags: &str) -> Option<ColumnType<'static>> {
    let base = vec![("x".to_string(), native("i")), ("y".to_string(), native("t")), ("z".to_string(), native("i"))];
    let mut fs = permute(&base, perm)?;
    if flags.contains('m') {
        fs.retain(|(n, _)| n != "z");
    }
    if flags.contains('f') {
        fs.insert(1.min(fs.len()), ("q9".to_string(), native("b")));
    }
    Some(udt(fs))
}
fn run_nv(id: &str, operm: &str, iperm: &str, flags: &str, vals: &[Cell]) -> String {
    let Some(inner) = inner_type(iperm, flags) else { return "error bad-inner-perm".into() };
    let list = |t: ColumnType<'static>| ColumnType::Collection {
        frozen: false,
        typ: scylla_cql_core::frame::response::result::CollectionType::List(Box::new(t)),
    };
    let (a, c) = (("a".to_string(), native("i")), ("c".to_string(), native("t")));
    let outer: Vec<(String, ColumnType<'static>)> = match id {
        "N01" => vec![a, ("in".to_string(), inner), c],
        "N02" => vec![a, ("o".to_string(), inner)],
        "N03" => vec![a, ("v".to_string(), list(inner))],
        "N04" => vec![a, ("inner".to_string(), inner)],
        "N05" => vec![a, ("s".to_string(), ColumnType::Collection {
            frozen: false,
            typ: scylla_cql_core::frame::response::result::CollectionType::Set(Box::new(inner)),
        })],
        "N06" => vec![a, ("m".to_string(), ColumnType::Collection {
            frozen: false,
            typ: scylla_cql_core::frame::response::result::CollectionType::Map(Box::new(native("i")), Box::new(inner)),
        })],
        "N07" => vec![a, ("t".to_string(), ColumnType::Tuple(vec![native("i"), inner]))],
        "NR1" => vec![("k".to_string(), native("i")), ("u".to_string(), inner)],
        _ => return "error unknown-struct".into(),
    };
    let Some(mut outer) = permute(&outer, operm) else { return "error bad-outer-perm".into() };
    if flags.contains('e') {
        outer.insert(0, ("w8".to_string(), native("t")));
    }
    if flags.contains('E') {
        outer.push(("w8".to_string(), native("t")));
    }
    if id == "NR1" {
        let specs: Vec<ColumnSpec<'static>> =
            outer.into_iter().map(|(n, t)| ColumnSpec::owned(n, t, TableSpec::owned("ks".into(), "tbl".into()))).collect();
        return run_sr::<NR1>(vals, &specs);
    }
    let typ = udt(outer);
    match id {
        "N01" => run_sv::<N01>(vals, &typ),
        "N02" => run_sv::<N02>(vals, &typ),
        "N03" => run_sv::<N03>(vals, &typ),
        "N05" => run_sv::<N05>(vals, &typ),
        "N06" => run_sv::<N06>(vals, &typ),
        "N07" => run_sv::<N07>(vals, &typ),
        _ => run_sv::<N04>(vals, &typ),
    }
}

// ------------------------------------------------------------------ errors -> class strings

fn ser_err_str(e: &SerializationError) -> String {
    use scylla_cql_core::serialize::row as r;
    use scylla_cql_core::serialize::value as v;
    if let Some(t) = e.downcast_ref::<v::BuiltinTypeCheckError>() {
        return match &t.kind {
            v::BuiltinTypeCheckErrorKind::UdtError(k) => match k {
                v::UdtTypeCheckErrorKind::NotUdt => "NotUdt".into(),
                v::UdtTypeCheckErrorKind::NoSuchFieldInUdt { field_name } => format!("NoSuchFieldInUdt({field_name})"),
                v::UdtTypeCheckErrorKind::ValueMissingForUdtField { field_name } => format!("ValueMissingForUdtField({field_name})"),
                v::UdtTypeCheckErrorKind::FieldNameMismatch { rust_field_name, db_field_name } => {
                    format!("FieldNameMismatch({rust_field_name},{db_field_name})")
                }
                other => format!("OtherUdtTypeCheck({other:?})"),
            },
            other => format!("OtherValueTypeCheck({other:?})").replace(' ', "_"),
        };
    }
    if let Some(t) = e.downcast_ref::<v::BuiltinSerializationError>() {
        return match &t.kind {
            v::BuiltinSerializationErrorKind::UdtError(v::UdtSerializationErrorKind::FieldSerializationFailed { field_name, .. }) => {
                format!("FieldSerializationFailed({field_name})")
            }
            other => format!("OtherValueSerialization({other:?})").replace(' ', "_"),
        };
    }
    if let Some(t) = e.downcast_ref::<r::BuiltinTypeCheckError>() {
        return match &t.kind {
            r::BuiltinTypeCheckErrorKind::NoColumnWithName { name } => format!("NoColumnWithName({name})"),
            r::BuiltinTypeCheckErrorKind::ValueMissingForColumn { name } => format!("ValueMissingForColumn({name})"),
            r::BuiltinTypeCheckErrorKind::ColumnNameMismatch { rust_column_name, db_column_name } => {
                format!("ColumnNameMismatch({rust_column_name},{db_column_name})")
            }
            r::BuiltinTypeCheckErrorKind::WrongColumnCount { rust_cols, cql_cols } => format!("WrongColumnCount({rust_cols},{cql_cols})"),
            other => format!("OtherRowTypeCheck({other:?})").replace(' ', "_"),
        };
    }
    if let Some(t) = e.downcast_ref::<r::BuiltinSerializationError>() {
        return match &t.kind {
            r::BuiltinSerializationErrorKind::ColumnSerializationFailed { name, .. } => format!("ColumnSerializationFailed({name})"),
            other => format!("OtherRowSerialization({other:?})").replace(' ', "_"),
        };
    }
    "UnknownSerializationError".into()
}

fn tck_err_str(e: &TypeCheckError) -> String {
    use scylla_cql_core::deserialize::row as r;
    use scylla_cql_core::deserialize::value as v;
    if let Some(t) = e.downcast_ref::<v::BuiltinTypeCheckError>() {
        return match &t.kind {
            v::BuiltinTypeCheckErrorKind::UdtError(k) => match k {
                v::UdtTypeCheckErrorKind::NotUdt => "NotUdt".into(),
                v::UdtTypeCheckErrorKind::ValuesMissingForUdtFields { field_names } => {
                    format!("ValuesMissingForUdtFields({})", field_names.join("+"))
                }
                v::UdtTypeCheckErrorKind::FieldNameMismatch { position, rust_field_name, db_field_name } => {
                    format!("FieldNameMismatch({position},{rust_field_name},{db_field_name})")
                }
                v::UdtTypeCheckErrorKind::ExcessFieldInUdt { db_field_name } => format!("ExcessFieldInUdt({db_field_name})"),
                v::UdtTypeCheckErrorKind::DuplicatedField { field_name } => format!("DuplicatedField({field_name})"),
                v::UdtTypeCheckErrorKind::TooFewFields { .. } => "TooFewFields".into(),
                v::UdtTypeCheckErrorKind::FieldTypeCheckFailed { field_name, .. } => format!("FieldTypeCheckFailed({field_name})"),
                other => format!("OtherUdtTypeCheck({other:?})").replace(' ', "_"),
            },
            other => format!("OtherValueTypeCheck({other:?})").replace(' ', "_"),
        };
    }
    if let Some(t) = e.downcast_ref::<r::BuiltinTypeCheckError>() {
        return match &t.kind {
            r::BuiltinTypeCheckErrorKind::WrongColumnCount { rust_cols, cql_cols } => format!("WrongColumnCount({rust_cols},{cql_cols})"),
            r::BuiltinTypeCheckErrorKind::ColumnWithUnknownName { column_index, column_name } => {
                format!("ColumnWithUnknownName({column_index},{column_name})")
            }
            r::BuiltinTypeCheckErrorKind::ValuesMissingForColumns { column_names } => {
                format!("ValuesMissingForColumns({})", column_names.join("+"))
            }
            r::BuiltinTypeCheckErrorKind::ColumnNameMismatch { field_index, column_index, rust_column_name, db_column_name } => {
                format!("ColumnNameMismatch({field_index},{column_index},{rust_column_name},{db_column_name})")
            }
            r::BuiltinTypeCheckErrorKind::ColumnTypeCheckFailed { column_index, column_name, .. } => {
                format!("ColumnTypeCheckFailed({column_index},{column_name})")
            }
            r::BuiltinTypeCheckErrorKind::DuplicatedColumn { column_index, column_name } => {
                format!("DuplicatedColumn({column_index},{column_name})")
            }
            other => format!("OtherRowTypeCheck({other:?})").replace(' ', "_"),
        };
    }
    "UnknownTypeCheckError".into()
}

fn des_err_str(e: &DeserializationError) -> String {
    use scylla_cql_core::deserialize::row as r;
    use scylla_cql_core::deserialize::value as v;
    if let Some(t) = e.downcast_ref::<v::BuiltinDeserializationError>() {
        return match &t.kind {
            v::BuiltinDeserializationErrorKind::UdtError(v::UdtDeserializationErrorKind::FieldDeserializationFailed { field_name, .. }) => {
                format!("FieldDeserializationFailed({field_name})")
            }
            other => format!("OtherValueDeserialization({other:?})").replace(' ', "_"),
        };
    }
    if let Some(t) = e.downcast_ref::<r::BuiltinDeserializationError>() {
        return match &t.kind {
            r::BuiltinDeserializationErrorKind::ColumnDeserializationFailed { column_index, column_name, .. } => {
                format!("ColumnDeserializationFailed({column_index},{column_name})")
            }
            r::BuiltinDeserializationErrorKind::RawColumnDeserializationFailed { column_index, column_name, .. } => {
                format!("RawColumnDeserializationFailed({column_index},{column_name})")
            }
            other => format!("OtherRowDeserialization({other:?})").replace(' ', "_"),
        };
    }
    "UnknownDeserializationError".into()
}

// ------------------------------------------------------------------ running the real code

fn cells_str(cs: &[Cell]) -> String {
    if cs.is_empty() {
        return "-".into();
    }
    cs.iter()
        .map(|c| match c {
            None => "N".to_string(),
            Some(b) if b.is_empty() => "_".to_string(),
            Some(b) => hex_bytes(b),
        })
        .collect::<Vec<_>>()
        .join(",")
}
fn parse_cells(s: &str) -> Vec<Cell> {
    if s == "-" {
        return vec![];
    }
    s.split(',')
        .map(|c| match c {
            "N" => None,
            "_" => Some(vec![]),
            h => Some((0..h.len() / 2).map(|i| u8::from_str_radix(&h[2 * i..2 * i + 2], 16).unwrap()).collect()),
        })
        .collect()
}
fn frame_cells(cs: &[Cell]) -> Vec<u8> {
    let mut b = vec![];
    for c in cs {
        match c {
            None => b.extend_from_slice(&(-1i32).to_be_bytes()),
            Some(p) => {
                b.extend_from_slice(&(p.len() as i32).to_be_bytes());
                b.extend_from_slice(p);
            }
        }
    }
    b
}

fn de_value<T>(typ: &ColumnType<'static>, framed: &[u8]) -> String
where
    T: Fam + for<'f, 'm> DeserializeValue<'f, 'm>,
{
    let r = catch(AssertUnwindSafe(|| -> String {
        if let Err(e) = <T as DeserializeValue>::type_check(typ) {
            return format!("tck {}", tck_err_str(&e));
        }
        let bytes = bytes::Bytes::copy_from_slice(framed);
        let mut fs = FrameSlice::new(&bytes);
        let v = match fs.read_cql_bytes() {
            Ok(v) => v,
            Err(_) => return "des RawFrame".into(),
        };
        match <T as DeserializeValue>::deserialize(typ, v) {
            Ok(t) => {
                let mut out = vec![];
                t.dump(&mut out);
                format!("ok {}", cells_str(&out))
            }
            Err(e) => format!("des {}", des_err_str(&e)),
        }
    }));
    r.unwrap_or_else(|_| "panic".into())
}

fn ser_value<T: Fam + SerializeValue>(vals: &[Cell], typ: &ColumnType<'static>) -> Result<Vec<u8>, String> {
    let v = T::build(&mut vals.iter()).map_err(|e| format!("error {e}"))?;
    let r = catch(AssertUnwindSafe(|| {
        let mut buf = Vec::new();
        let w = CellWriter::new(&mut buf);
        v.serialize(typ, w).map(|_| ()).map(|()| buf)
    }));
    match r {
        Err(_) => Err("panic".into()),
        Ok(Err(e)) => Err(format!("err {}", ser_err_str(&e))),
        Ok(Ok(b)) => Ok(b),
    }
}

fn run_sv<T>(vals: &[Cell], typ: &ColumnType<'static>) -> String
where
    T: Fam + SerializeValue + for<'f, 'm> DeserializeValue<'f, 'm>,
{
    match ser_value::<T>(vals, typ) {
        Err(s) => s,
        Ok(b) => format!("ok {} rt {}", hex_bytes(&b), de_value::<T>(typ, &b)),
    }
}

fn de_row<T>(specs: &[ColumnSpec<'static>], framed: &[u8]) -> String
where
    T: Fam + for<'f, 'm> DeserializeRow<'f, 'm>,
{
    let r = catch(AssertUnwindSafe(|| -> String {
        if let Err(e) = <T as DeserializeRow>::type_check(specs) {
            return format!("tck {}", tck_err_str(&e));
        }
        let bytes = bytes::Bytes::copy_from_slice(framed);
        let fs = FrameSlice::new(&bytes);
        let it = ColumnIterator::new(specs, fs);
        match <T as DeserializeRow>::deserialize(it) {
            Ok(t) => {
                let mut out = vec![];
                t.dump(&mut out);
                format!("ok {}", cells_str(&out))
            }
            Err(e) => format!("des {}", des_err_str(&e)),
        }
    }));
    r.unwrap_or_else(|_| "panic".into())
}

fn ser_row<T: Fam + SerializeRow>(vals: &[Cell], specs: &[ColumnSpec<'static>]) -> Result<Vec<u8>, String> {
    let v = T::build(&mut vals.iter()).map_err(|e| format!("error {e}"))?;
    let r = catch(AssertUnwindSafe(|| {
        let ctx = RowSerializationContext::from_specs(specs);
        let mut buf = Vec::new();
        let mut w = RowWriter::new(&mut buf);
        v.serialize(&ctx, &mut w).map(|()| buf)
    }));
    match r {
        Err(_) => Err("panic".into()),
        Ok(Err(e)) => Err(format!("err {}", ser_err_str(&e))),
        Ok(Ok(b)) => Ok(b),
    }
}

fn run_sr<T>(vals: &[Cell], specs: &[ColumnSpec<'static>]) -> String
where
    T: Fam + SerializeRow + for<'f, 'm> DeserializeRow<'f, 'm>,
{
    match ser_row::<T>(vals, specs) {
        Err(s) => s,
        Ok(b) => format!("ok {} rt {}", hex_bytes(&b), de_row::<T>(specs, &b)),
    }
}
fn run_sv_only<T: Fam + SerializeValue>(vals: &[Cell], typ: &ColumnType<'static>) -> String {
    match ser_value::<T>(vals, typ) {
        Err(s) => s,
        Ok(b) => format!("ok {}", hex_bytes(&b)),
    }
}
fn run_sr_only<T: Fam + SerializeRow>(vals: &[Cell], specs: &[ColumnSpec<'static>]) -> String {
    match ser_row::<T>(vals, specs) {
        Err(s) => s,
        Ok(b) => format!("ok {}", hex_bytes(&b)),
    }
}

// ------------------------------------------------------------------ registry

type SvFn = fn(&[Cell], &ColumnType<'static>) -> String;
type DvFn = fn(&ColumnType<'static>, &[u8]) -> String;
type SrFn = fn(&[Cell], &[ColumnSpec<'static>]) -> String;
type DrFn = fn(&[ColumnSpec<'static>], &[u8]) -> String;

struct Entry {
    id: &'static str,
    /// descriptor text: what the attributes above say, written by hand (see driver.ml for the grammar)
    desc: &'static str,
    sv: Option<SvFn>,
    dv: Option<DvFn>,
    sr: Option<SrFn>,
    dr: Option<DrFn>,
    /// serialization alone (for the PR bridge, which deserializes with differently obtained specs)
    sr_split: Option<fn(&[Cell], &[ColumnSpec<'static>]) -> Result<Vec<u8>, String>>,
}

macro_rules! v_entry {
    ($t:ident, $d:expr) => {
        Entry { id: stringify!($t), desc: $d, sv: Some(run_sv::<$t>), dv: Some(de_value::<$t>), sr: None, dr: None, sr_split: None }
    };
}
macro_rules! r_entry {
    ($t:ident, $d:expr) => {
        Entry { id: stringify!($t), desc: $d, sv: None, dv: None, sr: Some(run_sr::<$t>), dr: Some(de_row::<$t>), sr_split: Some(ser_row::<$t>) }
    };
}
macro_rules! f_entry {
    ($t:ident, $d:expr) => {
        Entry { id: stringify!($t), desc: $d, sv: None, dv: None, sr: Some(run_sr_only::<$t>), dr: None, sr_split: Some(ser_row::<$t>) }
    };
}

fn registry() -> Vec<Entry> {
    vec![
        v_entry!(V01, "-/a:i;b:t;c:I"),
        v_entry!(V02, "-/a:i;b:t;c:I;d:i;e:T;f:t"),
        v_entry!(V03, "-/a>x:i;b:t"),
        v_entry!(V04, "-/a>b:i;b>a:t"),
        v_entry!(V05, "-/a:i;s:t:s;b:t"),
        v_entry!(V06, "-/a:i:m;b:i"),
        v_entry!(V07, "-/a:i;b:t:m;c:I"),
        v_entry!(V08, "-/a:i:m;b:t;c:I:m;d:i"),
        v_entry!(V09, "-/a:i:d;b:t:d;c:I"),
        v_entry!(V10, "x/a:i;b:t"),
        v_entry!(V11, "x/a:i:m;b:t;c:I:m"),
        v_entry!(V12, "-/a>q:i:md;s:i:s;b:t:d;c:T:m"),
        v_entry!(V13, "-/a:I"),
        v_entry!(V14, "o/a:i;b:t;c:I"),
        v_entry!(V15, "ox/a:i;b:t;c:I"),
        v_entry!(V16, "o/a>b:i;b>a:t;c:i"),
        v_entry!(V17, "o/a:i;s:I:s;b:t;t:t:s"),
        v_entry!(V18, "o/a:i;b:t:m;c:I"),
        v_entry!(V19, "o/a:i;b:t:m;c:I:m"),
        v_entry!(V20, "o/a:i:m;b:i"),
        v_entry!(V21, "o/a:i:d;b:T;c:t:d"),
        v_entry!(V22, "on/a:i;b:t;c:I"),
        v_entry!(V23, "onx/a:i;b:t:m;c:I:m"),
        v_entry!(V24, "on/a:i;s:i:s;b:i"),
        v_entry!(V25, "ox/a:i:d;b:t:md;c:I"),
        v_entry!(V26, "-/a:i:m;b:T:m"),
        v_entry!(V27, "-/a:i;b:i;c:i;d:i"),
        v_entry!(V28, "o/a:i;b:i:m;c:i;d:i:m;e:i"),
        v_entry!(V29, "x/a>x:i;s:t:s;b:t:d;c:I"),
        v_entry!(V30, "o/a>x:i;b>y:t:m;c:I"),
        v_entry!(V31, "on/a:i:d;b:t:d;c:I:m"),
        v_entry!(V32, "-/a:i:m;b>x:t:d;s:i:s;c:I;d:i:md;e:T;f:t"),
        v_entry!(V33, "ox/a>x:i:d;s:t:s;b:t;c:I:m"),
        r_entry!(R01, "-/a:i;b:t;c:I"),
        r_entry!(R02, "-/a:i;b:t;c:I;d:i;e:T;f:t"),
        r_entry!(R03, "-/a>x:i;b:t"),
        r_entry!(R04, "-/a:i;s:t:s;b:t"),
        r_entry!(R05, "-/a:i:d;b:t:d;c:I:d"),
        r_entry!(R06, "-/a>z:i:d;s:i:s;b:t;c:I:d"),
        r_entry!(R07, "o/a:i;b:t;c:I"),
        r_entry!(R08, "o/a>b:i;s:t:s;b>a:t"),
        r_entry!(R09, "on/a:i;s:i:s;b:t"),
        r_entry!(R10, "o/a:i:d;b:T"),
        r_entry!(R11, "-/a:I"),
        r_entry!(R12, "-/a>b:i;b>a:t"),
        r_entry!(R13, "o/a>x:i:d;s:t:s;b:T:d"),
        r_entry!(R14, "on/a:i:d;b:t"),
        r_entry!(R15, "-/a>x:i:d;b>y:T:d;c:t"),
        f_entry!(F01, "-/x:i;q:{-/y:t;z:I}"),
        f_entry!(F02, "-/q1:{-/a:i;b:t};m:i;q2:{-/c:I}"),
        f_entry!(F03, "-/a:i;q:{-/b:t;r:{-/c:i;d:t}}"),
        f_entry!(F04, "-/q:{-/u>w:i;s:t:s;v:t};a>u:i"),
        f_entry!(F05, "-/a:i;q:{-/y:t;z:I}:s;b:t"),
        f_entry!(F06, "-/a:i;q:{-/a:i;b:t}"),
        f_entry!(F07, "o/a:i;q:{o/b:t;c:I};d:i"),
        f_entry!(F08, "o/a:i;q:{on/b:t;c:I}"),
        f_entry!(F09, "on/a:i;q:{o/b:t;c:I}"),
        f_entry!(F10, "-/q:{-/r:{-/c:I};e:i};p:{-/y:t;z:I}"),
        f_entry!(F11, "-/e:{-/};x:i"),
        f_entry!(F12, "-/e:{-/};q:{-/c:I}"),
        f_entry!(F13, "o/a:i;q:{o/b:t;r:{o/c:i;d:t}}"),
        f_entry!(F14, "o/q:{o/u>w:i;s:t:s;v:t};z:i"),
        f_entry!(F15, "on/a:i;q:{on/b:t;c:I}"),
        f_entry!(F16, "o/a:i;q:{on/b:t;r:{o/c:i;d:t}}"),
        f_entry!(F17, "on/a:i;q:{o/b:t;r:{on/c:i;d:t}}"),
        Entry { id: "G01", desc: "S/a>x:t;b:i;c:I:m", sv: Some(run_sv_only::<G01<'static, i32>>), dv: None, sr: None, dr: None, sr_split: None },
        Entry { id: "L01", desc: "-/a>x:t;b:i;c:I:m", sv: Some(run_sv_l01), dv: Some(de_value_l01), sr: None, dr: None, sr_split: None },
        Entry { id: "GR1", desc: "S/a:t;b>y:i", sv: None, dv: None, sr: Some(run_sr_only::<GR1<'static, i32>>), dr: None, sr_split: Some(ser_row::<GR1<'static, i32>>) },
        Entry { id: "LR1", desc: "-/a:t;b:i:d", sv: None, dv: None, sr: Some(run_sr_lr1), dr: Some(de_row_lr1), sr_split: Some(ser_row::<LR1<'static>>) },
        v_entry!(K01, "o/a:i;b>x:t:m"),
        r_entry!(KR1, "-/a>x:i;s:i:s;b:T"),
    ]
}

// ------------------------------------------------------------------ descriptor text (runner side)

/// What the generators need to know about a struct: the types of all its leaves in declaration
/// order (values are supplied for every leaf, skipped or not), and the (DB name, type) of the
/// leaves that take part in (de)serialization.
struct Shape {
    all_leaf_types: Vec<char>,
    bound: Vec<(String, char)>,
    idents: Vec<String>,
}
fn parse_shape(desc: &str) -> Shape {
    let b = desc.as_bytes();
    let mut sh = Shape { all_leaf_types: vec![], bound: vec![], idents: vec![] };
    fn ident(b: &[u8], i: &mut usize) -> String {
        let st = *i;
        while *i < b.len() && (b[*i].is_ascii_alphanumeric() || b[*i] == b'_') {
            *i += 1;
        }
        String::from_utf8(b[st..*i].to_vec()).unwrap()
    }
    fn desc_(b: &[u8], i: &mut usize, sh: &mut Shape, skipped: bool) {
        while b[*i] != b'/' {
            *i += 1;
        }
        *i += 1;
        if *i >= b.len() || b[*i] == b'}' {
            return;
        }
        loop {
            let id = ident(b, i);
            let mut name = id.clone();
            if b[*i] == b'>' {
                *i += 1;
                name = ident(b, i);
            }
            assert_eq!(b[*i], b':');
            *i += 1;
            if b[*i] == b'{' {
                *i += 1;
                // attrs come after the closing brace: find them first
                let mut depth = 1;
                let mut j = *i;
                while depth > 0 {
                    if b[j] == b'{' {
                        depth += 1;
                    } else if b[j] == b'}' {
                        depth -= 1;
                    }
                    j += 1;
                }
                let mut k = j;
                let mut attrs = String::new();
                if k < b.len() && b[k] == b':' {
                    k += 1;
                    attrs = ident(b, &mut k);
                }
                desc_(b, i, sh, skipped || attrs.contains('s'));
                assert_eq!(b[*i], b'}');
                *i = k;
            } else {
                let ty = b[*i] as char;
                *i += 1;
                let mut attrs = String::new();
                if *i < b.len() && b[*i] == b':' {
                    *i += 1;
                    attrs = ident(b, i);
                }
                sh.all_leaf_types.push(ty);
                sh.idents.push(id);
                if !skipped && !attrs.contains('s') {
                    sh.bound.push((name, ty));
                }
            }
            if *i < b.len() && b[*i] == b';' {
                *i += 1;
            } else {
                break;
            }
        }
    }
    let mut i = 0;
    desc_(b, &mut i, &mut sh, false);
    sh
}

// ------------------------------------------------------------------ descriptor self-check
// The struct attributes and the registered descriptor text are written by hand twice.  This derives
// the descriptor a second time from the struct's attribute text in this very source file, so that
// drift between the two is reported (`XD` lines; the driver says `diff descriptor-drift`).
const SOURCE: &str = include_str!("c16.rs");

fn derive_desc(name: &str) -> Result<String, String> {
    let at = [format!("struct {name} {{"), format!("struct {name}<")]
        .iter()
        .filter_map(|p| SOURCE.find(p.as_str()))
        .min()
        .ok_or_else(|| format!("struct {name} not found"))?;
    let head_start = SOURCE[..at].rfind("fam! {").ok_or("no fam! before struct")?;
    let head = &SOURCE[head_start..at];
    let mut flags = String::new();
    let body_for_flags = &SOURCE[at..at + SOURCE[at..].find('}').unwrap_or(0)];
    if !head.contains("Deserialize") && !body_for_flags.contains("flatten") {
        flags.push('S'); // serialize-only struct (no round trip expected)
    }
    if head.contains("flavor = \"enforce_order\"") {
        flags.push('o');
    }
    if head.contains("skip_name_checks") {
        flags.push('n');
    }
    if head.contains("forbid_excess_udt_fields") {
        flags.push('x');
    }
    if flags.is_empty() {
        flags.push('-');
    }
    // nested (flattened) structs are never marked serialize-only

    let body_start = at + SOURCE[at..].find('{').ok_or("no struct body")? + 1;
    let body_end = body_start + SOURCE[body_start..].find('}').ok_or("unterminated struct")?;
    let body = &SOURCE[body_start..body_end];
    // split the fields at commas outside parentheses / brackets / angle brackets
    let mut fields: Vec<String> = vec![];
    let (mut depth, mut cur) = (0i32, String::new());
    for c in body.chars() {
        match c {
            '(' | '[' | '<' => depth += 1,
            ')' | ']' | '>' => depth -= 1,
            _ => {}
        }
        if c == ',' && depth == 0 {
            fields.push(std::mem::take(&mut cur));
        } else {
            cur.push(c);
        }
    }
    fields.push(cur);
    let mut out: Vec<String> = vec![];
    for f in fields.iter().map(|f| f.trim()).filter(|f| !f.is_empty()) {
        // attributes: every #[scylla( ... )] group
        let mut attrs = String::new();
        let mut rest = f;
        while let Some(i) = rest.find("#[scylla(") {
            let j = i + rest[i..].find(")]").ok_or("unterminated attribute")?;
            attrs.push_str(&rest[i + 9..j]);
            attrs.push(',');
            rest = &rest[j + 2..];
        }
        let (id, ty) = rest.trim().split_once(':').ok_or_else(|| format!("field without type: {f}"))?;
        let (id, ty) = (id.trim(), ty.trim());
        let mut name_part = id.to_string();
        let mut letters = String::new();
        let mut flatten = false;
        let (mut am, mut dwn, mut skip) = (false, false, false);
        for a in attrs.split(',').map(|a| a.trim()).filter(|a| !a.is_empty()) {
            if let Some(v) = a.strip_prefix("rename") {
                let v = v.trim().trim_start_matches('=').trim().trim_matches('"');
                name_part = format!("{id}>{v}");
            } else {
                match a {
                    "allow_missing" => am = true,
                    "default_when_null" => dwn = true,
                    "skip" => skip = true,
                    "flatten" => flatten = true,
                    other => return Err(format!("unknown attribute {other}")),
                }
            }
        }
        if am {
            letters.push('m');
        }
        if dwn {
            letters.push('d');
        }
        if skip {
            letters.push('s');
        }
        let ty_part = match ty {
            "i32" => "i".to_string(),
            "String" => "t".to_string(),
            "Option<i32>" => "I".to_string(),
            "Option<String>" => "T".to_string(),
            "&'a str" => "t".to_string(),
            "T" => "i".to_string(), // the generic parameter is instantiated with i32
            nested => {
                if !flatten {
                    return Err(format!("nested struct field {id} without flatten"));
                }
                // a flattened struct is never marked serialize-only
                let inner = derive_desc(nested)?;
                let inner = match inner.strip_prefix('S') {
                    Some(r) if r.starts_with('/') => format!("-{r}"),
                    Some(r) => r.to_string(),
                    None => inner,
                };
                format!("{{{inner}}}")
            }
        };
        let mut fd = format!("{name_part}:{ty_part}");
        if !letters.is_empty() {
            fd.push(':');
            fd.push_str(&letters);
        }
        out.push(fd);
    }
    Ok(format!("{flags}/{}", out.join(";")))
}

fn native(t: &str) -> ColumnType<'static> {
    ColumnType::Native(match t {
        "i" => NativeType::Int,
        "t" => NativeType::Text,
        "a" => NativeType::Ascii,
        "b" => NativeType::BigInt,
        _ => panic!("bad db type {t}"),
    })
}
fn parse_db(s: &str) -> Vec<(String, ColumnType<'static>)> {
    if s == "-" {
        return vec![];
    }
    s.split(',')
        .map(|e| {
            let (n, t) = e.split_once(':').unwrap();
            (n.to_string(), native(t))
        })
        .collect()
}
fn udt(fields: Vec<(String, ColumnType<'static>)>) -> ColumnType<'static> {
    ColumnType::UserDefinedType {
        frozen: false,
        definition: Arc::new(UserDefinedType {
            name: "udt".into(),
            keyspace: "ks".into(),
            field_types: fields.into_iter().map(|(n, t)| (n.into(), t)).collect(),
        }),
    }
}
fn parse_dbtype(s: &str) -> ColumnType<'static> {
    if let Some(t) = s.strip_prefix('@') { native(t) } else { udt(parse_db(s)) }
}
fn specs(s: &str) -> Vec<ColumnSpec<'static>> {
    parse_db(s)
        .into_iter()
        .map(|(n, t)| ColumnSpec::owned(n, t, TableSpec::owned("ks".into(), "tbl".into())))
        .collect()
}

/// Bridge (kind PR): the column specs are not built by hand but come out of the driver's own decoder:
/// a RESULT/Prepared body is encoded by mocknode's independent encoder (bind columns = result
/// columns = the case's column list, same table or two tables so that both the global-table-spec and
/// the per-column form are produced), decoded by scylla_cql's `deserialize_with_features`, and the
/// derived SerializeRow runs on `prepared_metadata.col_specs`, the derived DeserializeRow on
/// `result_metadata.col_specs()`.
fn decoded_specs(cols: &str, two_tables: bool) -> Result<(Vec<ColumnSpec<'static>>, Vec<ColumnSpec<'static>>), String> {
    use vh::mocknode::types::body_result_prepared;
    use vh::mocknode::{ColSpec, CqlType, PreparedSpec};
    let ncols = if cols == "-" { 0 } else { cols.split(',').count() };
    let cs: Vec<ColSpec> = if cols == "-" {
        vec![]
    } else {
        cols.split(',')
            .enumerate()
            .map(|(i, e)| {
                let (n, t) = e.split_once(':').unwrap();
                let typ = match t {
                    "i" => CqlType::Int,
                    "t" => CqlType::Text,
                    "a" => CqlType::Ascii,
                    _ => CqlType::BigInt,
                };
                // kind PT: the last column lives in another table, so no global table spec is sent
                let table = if two_tables && i > 0 && i + 1 == ncols { "tbl2" } else { "tbl" };
                ColSpec::new("ks", table, n, typ)
            })
            .collect()
    };
    let spec = PreparedSpec { bind_columns: cs.clone(), result_columns: cs, ..Default::default() };
    let body = body_result_prepared(&spec, &[7u8; 16], None, None);
    let features = scylla_cql::frame::protocol_features::ProtocolFeatures::default();
    match scylla_cql::frame::response::result::deserialize_with_features(bytes::Bytes::from(body), None, &features) {
        Ok(scylla_cql::frame::response::result::Result::Prepared(p)) => {
            Ok((p.prepared_metadata.col_specs.clone(), p.result_metadata.col_specs().to_vec()))
        }
        Ok(_) => Err("error bridge-not-prepared".into()),
        Err(e) => Err(format!("error bridge-decode {}", format!("{e:?}").replace(' ', "_"))),
    }
}

fn run_case(reg: &[Entry], case: &str) -> String {
    let f: Vec<&str> = case.split_whitespace().collect();
    if f.len() == 4 && f[0] == "XD" {
        let derived = derive_desc(f[1]).unwrap_or_else(|m| format!("error:{}", m.replace(' ', "_")));
        return if reg.iter().any(|e| e.id == f[1] && e.desc == derived && f[2] == e.desc && f[3] == derived) { "same".into() } else { "differ".into() };
    }
    if f.len() == 6 && f[0] == "NV" {
        return run_nv(f[1], f[2], f[3], f[4], &parse_cells(f[5]));
    }
    if f.len() != 5 {
        return "error bad-case".into();
    }
    let Some(e) = reg.iter().find(|e| e.id == f[1]) else { return "error unknown-struct".into() };
    match f[0] {
        "SV" => match e.sv {
            Some(g) => g(&parse_cells(f[4]), &parse_dbtype(f[3])),
            None => "error no-SerializeValue".into(),
        },
        "DV" => match e.dv {
            Some(g) => {
                let body = frame_cells(&parse_cells(f[4]));
                let mut framed = (body.len() as i32).to_be_bytes().to_vec();
                framed.extend_from_slice(&body);
                g(&parse_dbtype(f[3]), &framed)
            }
            None => "error no-DeserializeValue".into(),
        },
        "PR" | "PT" => {
            let (bind, result) = match decoded_specs(f[3], f[0] == "PT") {
                Ok(x) => x,
                Err(m) => return m,
            };
            let vals = parse_cells(f[4]);
            match (e.sr_split, e.dr) {
                (Some(ser), Some(de)) => match ser(&vals, &bind) {
                    Err(s) => s,
                    Ok(b) => format!("ok {} rt {}", hex_bytes(&b), de(&result, &b)),
                },
                (Some(ser), None) => match ser(&vals, &bind) {
                    Err(s) => s,
                    Ok(b) => format!("ok {}", hex_bytes(&b)),
                },
                _ => "error no-SerializeRow".into(),
            }
        }
        "SR" => match e.sr {
            Some(g) => g(&parse_cells(f[4]), &specs(f[3])),
            None => "error no-SerializeRow".into(),
        },
        "DR" => match e.dr {
            Some(g) => g(&specs(f[3]), &frame_cells(&parse_cells(f[4]))),
            None => "error no-DeserializeRow".into(),
        },
        _ => "error unknown-case".into(),
    }
}

// ------------------------------------------------------------------ generators

fn db_ty_of(rust_ty: char) -> &'static str {
    match rust_ty {
        'i' | 'I' => "i",
        _ => "t",
    }
}
fn gen_val(r: &mut Rng, ty: char) -> Cell {
    match ty {
        'i' => {
            let v = if r.chance(1, 3) { r.u64() as i32 } else { *r.pick(&[0i32, 1, -1, 7, i32::MAX, i32::MIN, 0x01020304]) };
            Some(v.to_be_bytes().to_vec())
        }
        't' => {
            let n = r.below(4) as usize;
            Some((0..n).map(|_| b'a' + r.below(26) as u8).collect())
        }
        'I' => if r.chance(1, 3) { None } else { gen_val(r, 'i') },
        'T' => if r.chance(1, 3) { None } else { gen_val(r, 't') },
        _ => unreachable!(),
    }
}
fn gen_vals(r: &mut Rng, sh: &Shape) -> Vec<Cell> {
    sh.all_leaf_types.iter().map(|t| gen_val(r, *t)).collect()
}
/// a serialized cell for a DB field of the given type: mostly well-formed, sometimes null,
/// rarely malformed (wrong length / non UTF-8)
fn gen_db_cell(r: &mut Rng, dbty: &str, null: Option<bool>) -> Cell {
    let is_null = null.unwrap_or_else(|| r.chance(1, 5));
    if is_null {
        return None;
    }
    match dbty {
        "i" => {
            if r.chance(1, 40) {
                { let n = *r.pick(&[0usize, 3, 5, 8]); Some(r.bytes(n)) }
            } else {
                gen_val(r, 'i')
            }
        }
        "t" | "a" => {
            if r.chance(1, 40) {
                Some(vec![b'a', 0xff])
            } else {
                gen_val(r, 't')
            }
        }
        _ => Some(r.bytes(8)),
    }
}
fn db_str(db: &[(String, String)]) -> String {
    if db.is_empty() {
        return "-".into();
    }
    db.iter().map(|(n, t)| format!("{n}:{t}")).collect::<Vec<_>>().join(",")
}

fn permutations<T: Clone>(xs: &[T]) -> Vec<Vec<T>> {
    if xs.len() <= 1 {
        return vec![xs.to_vec()];
    }
    let mut out = vec![];
    for i in 0..xs.len() {
        let mut rest = xs.to_vec();
        let x = rest.remove(i);
        for mut p in permutations(&rest) {
            p.insert(0, x.clone());
            out.push(p);
        }
    }
    out
}

struct Gen<'a> {
    thorough: bool,
    reg: &'a [Entry],
    out: Out,
    r: Rng,
}
impl Gen<'_> {
    /// A DB-side name for an EXTRA field / column: random identifiers, case variants of the struct's
    /// own names (names are case sensitive), Rust identifiers of renamed / skipped fields; never
    /// equal to a bound name or to a name in `taken` (duplicates are a separate phase).
    fn extra_name(&mut self, sh: &Shape, taken: &[(String, String)]) -> String {
        for _ in 0..50 {
            let n: String = match self.r.below(8) {
                0 | 1 if !sh.idents.is_empty() => self.r.pick(&sh.idents).clone(),
                2 | 3 if !sh.bound.is_empty() => {
                    let b = self.r.pick(&sh.bound).0.clone();
                    match self.r.below(3) {
                        0 => b.to_uppercase(),
                        1 => format!("{b}_"),
                        _ => format!("{b}{b}"),
                    }
                }
                _ => {
                    let len = self.r.range(1, 3) as usize;
                    let mut t: String = (0..len).map(|_| (b'a' + self.r.below(26) as u8) as char).collect();
                    if self.r.chance(1, 4) {
                        t.push((b'0' + self.r.below(10) as u8) as char);
                    }
                    t
                }
            };
            if !sh.bound.iter().any(|(m, _)| *m == n) && !taken.iter().any(|(m, _)| *m == n) {
                return n;
            }
        }
        "zz9".to_string()
    }
    fn emit(&mut self, case: String) {
        let o = run_case(self.reg, &case);
        self.out.case(&case, &o);
    }
    /// one serialize case (+ round trip) and `nde` deserialize cases for the DB list
    fn cases_for_db(&mut self, e: &Entry, sh: &Shape, db: &[(String, String)], nde: usize, all_nulls: bool) {
        let null_limit = if self.thorough { 6 } else { 4 };
        let is_v = e.sv.is_some();
        let dbs = db_str(db);
        let vals = gen_vals(&mut self.r, sh);
        self.emit(format!("{} {} {} {} {}", if is_v { "SV" } else { "SR" }, e.id, e.desc, dbs, cells_str(&vals)));
        if !is_v && self.r.chance(1, 6) {
            // the same case on column specs decoded by the driver from an encoded PREPARED response;
            // PT: the last column in a second table (the per-column table spec form)
            let kind = if db.len() >= 2 && self.r.chance(1, 3) { "PT" } else { "PR" };
            self.emit(format!("{} {} {} {} {}", kind, e.id, e.desc, dbs, cells_str(&vals)));
        }
        if !(if is_v { e.dv.is_some() } else { e.dr.is_some() }) {
            return;
        }
        let kind = if is_v { "DV" } else { "DR" };
        for _ in 0..nde {
            let mut cells: Vec<Cell> = db.iter().map(|(_, t)| gen_db_cell(&mut self.r, t, None)).collect();
            if is_v && self.r.chance(1, 6) {
                // a serialized UDT may have fewer values than the type has fields
                let k = self.r.below(cells.len() as u64 + 1) as usize;
                cells.truncate(k);
            }
            self.emit(format!("{} {} {} {} {}", kind, e.id, e.desc, dbs, cells_str(&cells)));
        }
        if all_nulls && db.len() <= null_limit {
            for mask in 0..(1u32 << db.len()) {
                let cells: Vec<Cell> = db
                    .iter()
                    .enumerate()
                    .map(|(i, (_, t))| gen_db_cell(&mut self.r, t, Some(mask >> i & 1 == 1)))
                    .collect();
                self.emit(format!("{} {} {} {} {}", kind, e.id, e.desc, dbs, cells_str(&cells)));
            }
        }
    }

    fn structured(&mut self, e: &Entry, thorough: bool) {
        let sh = parse_shape(e.desc);
        let base: Vec<(String, String)> = sh.bound.iter().map(|(n, t)| (n.clone(), db_ty_of(*t).to_string())).collect();
        let k = base.len();
        // (a) every permutation of the struct's own columns / fields
        let perms = permutations(&base);
        let reps = if thorough { 4 } else { 2 };
        let null_limit = if thorough { 6 } else { 4 };
        for (pi, p) in perms.iter().enumerate() {
            // every null pattern: for all orders of small structs, for the declared and the reversed
            // order of the larger ones
            let nulls = k <= 3 || (k <= null_limit && (pi == 0 || pi + 1 == perms.len()));
            for rep in 0..reps {
                self.cases_for_db(e, &sh, p, 1, nulls && rep == 0);
            }
        }
        // a few orders used below: identity, reversed, two random
        let mut orders: Vec<Vec<(String, String)>> = vec![base.clone(), base.iter().rev().cloned().collect()];
        for _ in 0..2 {
            let mut p = base.clone();
            self.r.shuffle(&mut p);
            orders.push(p);
        }
        // (b) every subset of fields missing, in each of those orders
        for mask in 0..(1u32 << k) {
            for o in &orders {
                let db: Vec<_> = o.iter().filter(|(n, _)| {
                    let idx = base.iter().position(|(m, _)| m == n).unwrap();
                    mask >> idx & 1 == 0
                }).cloned().collect();
                if db.len() == k && mask != 0 {
                    continue;
                }
                self.cases_for_db(e, &sh, &db, 1, false);
                // ... and with one extra field at every position
                if mask.count_ones() <= 1 || thorough {
                    for pos in 0..=db.len() {
                        let mut d2 = db.clone();
                        let xn = self.extra_name(&sh, &db);
                        d2.insert(pos, (xn, self.r.pick(&["i", "t", "b", "a"]).to_string()));
                        self.cases_for_db(e, &sh, &d2, 1, false);
                    }
                }
            }
        }
        // (c) two extra fields at every pair of positions, identity and reversed order
        for o in orders.iter().take(2) {
            for p1 in 0..=k {
                for p2 in p1..=k {
                    let mut d2 = o.clone();
                    let x1 = self.extra_name(&sh, &d2);
                    d2.insert(p2, (x1, "t".to_string()));
                    let x2 = self.extra_name(&sh, &d2);
                    d2.insert(p1, (x2, "i".to_string()));
                    self.cases_for_db(e, &sh, &d2, 1, false);
                }
            }
        }
        // (d) one field duplicated at every position; (e) one field with another type
        for o in orders.iter().take(3) {
            for i in 0..k {
                for pos in 0..=k {
                    let mut d2 = o.clone();
                    d2.insert(pos, o[i].clone());
                    self.cases_for_db(e, &sh, &d2, 1, false);
                }
                for t in ["i", "t", "b", "a"] {
                    if t != o[i].1 {
                        let mut d2 = o.clone();
                        d2[i].1 = t.to_string();
                        self.cases_for_db(e, &sh, &d2, 1, false);
                    }
                }
            }
        }
        // (f) Rust identifiers of renamed fields used as DB names, and a non-UDT type
        for (idx, id) in sh.idents.iter().enumerate() {
            if !base.iter().any(|(n, _)| n == id) {
                let mut d2 = base.clone();
                d2.push((id.clone(), db_ty_of(sh.all_leaf_types[idx]).to_string()));
                self.cases_for_db(e, &sh, &d2, 1, false);
                let mut d3 = base.clone();
                if !d3.is_empty() {
                    d3[0].0 = id.clone();
                    self.cases_for_db(e, &sh, &d3, 1, false);
                }
            }
        }
        if e.sv.is_some() {
            for t in ["i", "t", "b"] {
                let vals = gen_vals(&mut self.r, &sh);
                self.emit(format!("SV {} {} @{} {}", e.id, e.desc, t, cells_str(&vals)));
                if e.dv.is_some() {
                    self.emit(format!("DV {} {} @{} -", e.id, e.desc, t));
                }
            }
        }
    }

    /// kind NV: every order of the outer fields x every order of the inner fields x flag sets
    fn nested(&mut self, reps: usize) {
        let inner_perms: Vec<String> = permutations(&['0', '1', '2']).into_iter().map(|p| p.into_iter().collect()).collect();
        for (id, nouter, ordered) in [("N01", 3usize, false), ("N02", 2, false), ("N03", 2, false), ("N04", 2, true), ("NR1", 2, false),
             ("N05", 2, false), ("N06", 2, false), ("N07", 2, false)] {
            let digits: Vec<char> = (0..nouter).map(|i| char::from_digit(i as u32, 10).unwrap()).collect();
            let outer_perms: Vec<String> = if ordered {
                vec![digits.iter().collect()]
            } else {
                permutations(&digits).into_iter().map(|p| p.into_iter().collect()).collect()
            };
            for op in &outer_perms {
                for ip in &inner_perms {
                    for fl in ["-", "m", "f", "mf", "e", "ef", "E", "Em"] {
                        // rows tolerate no extra column, the ordered parent only a trailing one
                        if (id == "NR1" && (fl.contains('e') || fl.contains('E'))) || (ordered && fl.contains('e')) {
                            continue;
                        }
                        for _ in 0..reps {
                            let mut one = |g: &mut Self| -> Vec<Cell> {
                                let z = if fl.contains('m') { None } else { gen_val(&mut g.r, 'I') };
                                vec![gen_val(&mut g.r, 'i'), gen_val(&mut g.r, 'T'), z]
                            };
                            let mut vals: Vec<Cell> = vec![gen_val(&mut self.r, 'i')];
                            match id {
                                "N02" => {
                                    if self.r.chance(1, 4) {
                                        vals.push(None);
                                    } else {
                                        vals.push(Some(vec![]));
                                        vals.extend(one(self));
                                    }
                                }
                                "N03" | "N05" => {
                                    // N05: a set; one element at most (the set's element order is the server's business)
                                    let n = if id == "N05" { self.r.below(2) as u8 } else { self.r.below(3) as u8 };
                                    vals.push(Some(vec![n]));
                                    for _ in 0..n {
                                        vals.extend(one(self));
                                    }
                                }
                                "N06" => {
                                    // BTreeMap: keys strictly ascending so that dump order = build order
                                    let n = self.r.below(3) as u8;
                                    vals.push(Some(vec![n]));
                                    for k in 0..n {
                                        vals.push(Some((k as i32 * 7 - 3).to_be_bytes().to_vec()));
                                        vals.extend(one(self));
                                    }
                                }
                                "N07" => {
                                    vals.push(gen_val(&mut self.r, 'i'));
                                    vals.extend(one(self));
                                }
                                _ => vals.extend(one(self)),
                            }
                            if id == "N01" {
                                vals.push(gen_val(&mut self.r, 't'));
                            }
                            self.emit(format!("NV {} {} {} {} {}", id, op, ip, fl, cells_str(&vals)));
                        }
                    }
                }
            }
        }
    }

    fn random(&mut self, e: &Entry) {
        let sh = parse_shape(e.desc);
        let mut db: Vec<(String, String)> = vec![];
        // mostly valid: 3 of 5 cases list exactly the struct's fields (in a random order); the
        // others drop / retype fields, add extras (unknown names, Rust identifiers of renamed
        // fields) and duplicates
        let valid = self.r.chance(3, 5);
        for (n, t) in &sh.bound {
            if valid || !self.r.chance(1, 5) {
                let ty = if !valid && self.r.chance(1, 10) {
                    self.r.pick(&["i", "t", "b", "a"]).to_string()
                } else if db_ty_of(*t) == "t" && self.r.chance(1, 4) {
                    "a".to_string() // String also binds to an ascii column
                } else {
                    db_ty_of(*t).to_string()
                };
                db.push((n.clone(), ty));
            }
        }
        let extras = if valid { 0 } else { match self.r.below(6) { 0 => 2, 1 | 2 => 1, _ => 0 } };
        for _ in 0..extras {
            let n = self.extra_name(&sh, &db);
            if !db.iter().any(|(m, _)| *m == n) || self.r.chance(1, 3) {
                db.push((n, self.r.pick(&["i", "t", "b", "a"]).to_string()));
            }
        }
        if !valid && self.r.chance(1, 12) && !db.is_empty() {
            let d = self.r.pick(&db).clone();
            db.push(d);
        }
        let ordered = e.desc.split('/').next().unwrap().contains('o');
        // ordered structs: keep the declared order in most valid cases, otherwise they only see rejections
        if !(valid && ordered && self.r.chance(4, 5)) {
            match self.r.below(4) {
                0 => {}
                1 => db.reverse(),
                _ => self.r.shuffle(&mut db),
            }
        }
        self.cases_for_db(e, &sh, &db, 2, false);
    }
}

fn main() {
    let a = parse_args();
    quiet_panics();
    let reg = registry();
    let mut out = Out::create(&a.out);
    if let Some(p) = &a.replay {
        for c in read_cases(p) {
            let o = run_case(&reg, &c);
            out.case(&c, &o);
        }
        out.finish();
        return;
    }
    let mut g = Gen { thorough: a.tier == "thorough", reg: &reg, out, r: Rng::new(a.seed) };
    // a struct whose registered descriptor disagrees with its attribute text gets its XD line
    // (`diff descriptor-drift`) and NO cases: they would be judged with a wrong descriptor
    let mut drifted: Vec<&str> = vec![];
    for e in reg.iter() {
        let derived = derive_desc(e.id).unwrap_or_else(|m| format!("error:{}", m.replace(' ', "_")));
        let same = if derived == e.desc { "same" } else { "differ" };
        if derived != e.desc {
            drifted.push(e.id);
        }
        g.out.case(&format!("XD {} {} {}", e.id, e.desc, derived), same);
    }
    let reg: Vec<&Entry> = reg.iter().filter(|e| !drifted.contains(&e.id)).collect();
    let thorough = a.tier == "thorough";
    for e in reg.iter() {
        g.structured(e, thorough);
    }
    for i in 0..a.n {
        let e = reg[(i % reg.len() as u64) as usize];
        g.random(e);
    }
    g.nested(if thorough { 40 } else { 6 });
    g.out.finish();
}
