//! C09 on-demand reproducer (NOT run by ./check) of the fixed finding F19 frame-len32-wrap:
//! before /repo a9f519c SerializedRequest::make wrote `(data.len() - 9) as u32`, so a body of 4 GiB
//! or more got a length field equal to the body size modulo 2^32 (this program then printed
//! REPRODUCED); since the fix it prints `refused: Request body is too long ...`.  Builds a BATCH of
//! five unprepared statements sharing one 1 GiB text; needs ~7 GiB of memory for a few seconds.
//!   cargo run --offline --bin c09_len32
use scylla_cql::Consistency;
use scylla_cql::frame::SerializedRequest;
use scylla_cql::frame::request::Batch;
use scylla_cql::frame::request::batch::{BatchStatement, BatchType};
use scylla_cql::serialize::row::SerializedValues;
use std::borrow::Cow;

fn main() {
    let text = "s".repeat(1 << 30);
    let stmts: Vec<BatchStatement<'_>> = (0..5).map(|_| BatchStatement::Query { text: Cow::Borrowed(text.as_str()) }).collect();
    let values: Vec<SerializedValues> = (0..5).map(|_| SerializedValues::new()).collect();
    let b = Batch {
        statements: Cow::Borrowed(&stmts[..]),
        batch_type: BatchType::Logged,
        consistency: Consistency::One,
        serial_consistency: None,
        timestamp: None,
        values,
    };
    match SerializedRequest::make(&b, None, false) {
        Err(e) => println!("refused: {e}"),
        Ok(sr) => {
            let d = sr.get_data();
            let body = d.len() - 9;
            let field = u32::from_be_bytes([d[5], d[6], d[7], d[8]]) as usize;
            println!("make returned Ok: body size = {body} bytes, header length field = {field}");
            if field != body {
                println!("REPRODUCED: length field != body size (truncated modulo 2^32 = {})", body % (1usize << 32));
            }
        }
    }
}
