//! C11 runner: generates sharding cases from the seed, runs the real Sharder / port functions
//! / ShardInfo parser, and writes "<case> | <observed>" lines for the extracted model.
//! e2e part (`E` lines): a real `Session` against `vh::mocknode` with small shard-aware local port
//! ranges and pre-bound local ports (see `c11_e2e.rs`).
use scylla::routing::verif_sharding as hooks;
use scylla::routing::{ShardAwarePortRange, ShardCount, Sharder, Token};
use std::collections::HashMap;
use vh::*;

#[path = "../c11_e2e.rs"]
mod e2e;

fn sharder(n: u16, msb: u8) -> Sharder {
    Sharder::new(ShardCount::new(n).unwrap(), msb)
}

fn run_case(case: &str) -> String {
    let f: Vec<&str> = case.split_whitespace().collect();
    // any line that is not a well-formed case (a replay file may contain anything) gets one answer line
    let hexok = |s: &str| !s.is_empty() && s.len() <= 16 && s.chars().all(|c| c.is_ascii_hexdigit());
    let wellformed = match f.first().copied() {
        // inside the quantifier only: 1 <= n <= 65535, msb <= 63, token != i64::MIN (never on the wire), s < n, ports within u16
        Some("S") => {
            f.len() == 4 && hexok(f[1]) && hexok(f[2]) && hexok(f[3].strip_prefix('-').unwrap_or(f[3])) && {
                let (n, msb) = (u64::from_str_radix(f[1], 16).unwrap(), u64::from_str_radix(f[2], 16).unwrap());
                (1..=65535).contains(&n) && msb <= 63 && f[3] != "-8000000000000000"
            }
        }
        Some("P") => f.len() == 3 && hexok(f[1]) && hexok(f[2]) && (1..=65535).contains(&u64::from_str_radix(f[1], 16).unwrap()) && u64::from_str_radix(f[2], 16).unwrap() <= 65535,
        Some("I") | Some("D") => {
            f.len() == 5 && f[1..].iter().all(|x| hexok(x)) && {
                let v: Vec<u64> = f[1..].iter().map(|x| u64::from_str_radix(x, 16).unwrap()).collect();
                (1..=65535).contains(&v[0]) && v[1] < v[0] && v[2] >= 1024 && v[2] <= v[3] && v[3] <= 65535
            }
        }
        Some("R") => f.len() == 4,
        // N lo hi: ANY pair of u16 values (the constructor decides; refused ranges are part of the quantifier)
        Some("N") => f.len() == 3 && hexok(f[1]) && hexok(f[2]) && f[1..].iter().all(|x| u64::from_str_radix(x, 16).unwrap() <= 65535),
        _ => false,
    };
    if !wellformed {
        return "error unknown-case".into();
    }
    let h = |s: &str| u64::from_str_radix(s, 16).unwrap();
    match f[0] {
        "S" => {
            let t = if let Some(r) = f[3].strip_prefix('-') {
                (-(i128::from_str_radix(r, 16).unwrap())) as i64
            } else {
                i128::from_str_radix(f[3], 16).unwrap() as i64
            };
            let sh = sharder(h(f[1]) as u16, h(f[2]) as u8);
            // Token::new normalises i64::MIN; tokens on the wire are already normalised
            match catch(move || sh.shard_of(Token::new(t))) {
                Ok(s) => hex_u(s as u128),
                Err(_) => "panic".into(),
            }
        }
        "P" => {
            let sh = sharder(h(f[1]) as u16, 0);
            let port = h(f[2]) as u16;
            match catch(move || sh.shard_of_source_port(port)) {
                Ok(s) => hex_u(s as u128),
                Err(_) => "panic".into(),
            }
        }
        "I" | "D" => {
            let (n, s, lo, hi) = (h(f[1]) as u16, h(f[2]) as u32, h(f[3]) as u16, h(f[4]) as u16);
            let sh = sharder(n, 0);
            // every case has 1024 <= lo <= hi (checked above): the documented constructor accepts it.
            // A refusal is an observation ("nothing is produced"), judged by the driver, not a runner failure.
            let range = match ShardAwarePortRange::new(lo..=hi) {
                Ok(r) => r,
                Err(_) => return "rejected".into(),
            };
            if f[0] == "I" {
                match catch(move || hooks::iter_source_ports_for_shard_from_range(&sh, s, &range)) {
                    Ok(v) => hex_list(&v),
                    Err(_) => "panic".into(),
                }
            } else {
                match catch(move || hooks::draw_source_port_for_shard_from_range(&sh, s, &range)) {
                    Ok(Some(p)) => hex_u(p as u128),
                    Ok(None) => "none".into(),
                    Err(_) => "panic".into(),
                }
            }
        }
        "N" => {
            // the real constructor on lo..=hi; the accepted range's bounds are private, what it hands on is
            // observed by the I / D cases
            let (lo, hi) = (h(f[1]) as u16, h(f[2]) as u16);
            match catch(move || ShardAwarePortRange::new(lo..=hi).is_ok()) {
                Ok(true) => "ok".into(),
                Ok(false) => "rejected".into(),
                Err(_) => "panic".into(),
            }
        }
        "R" => {
            let mut m: HashMap<String, Vec<String>> = HashMap::new();
            for (k, e) in ["SCYLLA_SHARD", "SCYLLA_NR_SHARDS", "SCYLLA_SHARDING_IGNORE_MSB"].iter().zip(&f[1..4]) {
                if *e == "N" {
                    continue;
                }
                let vals: Vec<String> = if *e == "E" {
                    vec![]
                } else {
                    e[2..]
                        .split(',')
                        .map(|hx| {
                            let b: Vec<u8> = if hx == "-" { vec![] } else {
                                (0..hx.len() / 2).map(|i| u8::from_str_radix(&hx[2 * i..2 * i + 2], 16).unwrap()).collect()
                            };
                            String::from_utf8(b).unwrap()
                        })
                        .collect()
                };
                m.insert(k.to_string(), vals);
            }
            match catch(move || hooks::parse_shard_info(&m)) {
                Ok(Ok((s, n, msb))) => format!("ok {} {} {}", hex_u(s as u128), hex_u(n as u128), hex_u(msb as u128)),
                Ok(Err(e)) => format!("err {}", e),
                Err(_) => "panic".into(),
            }
        }
        _ => "error unknown-case".into(),
    }
}

/// Tokens for the case's own (n, msb): boundary values, tokens within +-2 of a shard boundary of
/// THIS sharder (biased, shifted value k * 2^64 / n, any high bits in the ignored part), random.
fn gen_token(r: &mut Rng, n: u16, msb: u8) -> i64 {
    match r.below(8) {
        0 => *r.pick(&[i64::MAX, i64::MIN + 1, 0, -1, 1, i64::MAX - 1, i64::MIN + 2]),
        1..=3 => {
            // shifted = (biased << msb) mod 2^64 must be close to ceil(k * 2^64 / n)
            let k = r.range(0, n as u64) as u128;
            let boundary = ((k << 64) + n as u128 - 1) / n as u128; // first shifted value of shard k
            let delta = r.range(0, 4) as i128 - 2;
            let shifted = ((boundary as i128 + delta).rem_euclid(1i128 << 64)) as u128;
            // biased = (high bits arbitrary) | (shifted >> msb), low bits of shifted that do not come
            // from biased are lost: only multiples of 2^msb are reachable; round.
            // the bits below 2^msb of `shifted` cannot come from `biased`: rounding down lands on the
            // last value of the previous shard most of the time, so also round up half of the time
            let low = ((shifted >> msb) as u64).wrapping_add(if msb > 0 && r.bool() { 1 } else { 0 })
                & (if msb == 0 { u64::MAX } else { (1u64 << (64 - msb as u32)) - 1 });
            let high = if msb == 0 { 0 } else { r.u64() << (64 - msb as u32) };
            let biased = high | low;
            let t = (biased.wrapping_sub(1u64 << 63)) as i64;
            if t == i64::MIN { i64::MAX } else { t }
        }
        _ => {
            let t = r.i64();
            if t == i64::MIN { i64::MAX } else { t }
        }
    }
}
fn gen_n(r: &mut Rng) -> u16 {
    match r.below(6) {
        0 => r.range(1, 8) as u16,
        1 => r.range(1, 64) as u16,
        2 => *r.pick(&[1u16, 2, 255, 256, 257, 32767, 32768, 65534, 65535]),
        3 => r.range(1, 1024) as u16,
        _ => r.range(1, 65535) as u16,
    }
}
fn gen_range(r: &mut Rng, n: u16) -> (u16, u16) {
    match r.below(6) {
        0 => {
            // range ending at 65535
            let len = r.range(0, (n as u64 * 3).min(64511));
            ((65535 - len) as u16, 65535)
        }
        1 => {
            // shorter than the shard count
            let lo = r.range(1024, 65535) as u16;
            let len = r.below(n as u64) as u16;
            (lo, lo.saturating_add(len))
        }
        2 => (49152, 65535),
        3 => {
            let lo = r.range(1024, 65535) as u16;
            (lo, lo)
        }
        _ => {
            let a = r.range(1024, 65535) as u16;
            let b = r.range(1024, 65535) as u16;
            (a.min(b), a.max(b))
        }
    }
}
fn enc_str(s: &str) -> String {
    hex_bytes(s.as_bytes())
}
fn gen_numstr(r: &mut Rng) -> String {
    match r.below(12) {
        0 => "".into(),
        1 => "+".into(),
        2 => format!("-{}", r.below(10)),
        3 => format!("+{}", r.below(70000)),
        4 => format!("{}x", r.below(100)),
        5 => format!("0{}", r.below(300)),
        6 => r.pick(&["65535", "65536", "255", "256", "0", "00", " 1", "1 ", "٣"]).to_string(),
        7 => format!("{}", r.below(1u64 << 40)),
        _ => format!("{}", r.below(300)),
    }
}
fn gen_entry(r: &mut Rng) -> String {
    match r.below(14) {
        0 => "N".into(),
        1 => "E".into(),
        2 => format!("V:{},{}", enc_str(&gen_numstr(r)), enc_str(&gen_numstr(r))),
        _ => format!("V:{}", enc_str(&gen_numstr(r))),
    }
}

fn main() {
    let a = parse_args();
    quiet_panics();
    let mut out = Out::create(&a.out);
    if let Some(p) = &a.replay {
        for c in read_cases(p) {
            if c.starts_with("E ") {
                e2e::replay_case(&c, &mut out);
                continue;
            }
            // a replayed line may be anything (n = 0, lo > hi, odd hex ...): exactly one answer line, never a crash
            let o = std::panic::catch_unwind(std::panic::AssertUnwindSafe(|| run_case(&c))).unwrap_or_else(|_| "error unknown-case".into());
            out.case(&c, &o);
        }
        out.finish();
        return;
    }
    // number of end-to-end scenarios: --e2e N, default by tier
    let e2e_n: u64 = a
        .extra
        .iter()
        .position(|x| x == "--e2e")
        .and_then(|i| a.extra.get(i + 1))
        .and_then(|v| v.parse().ok())
        .unwrap_or(if a.tier == "thorough" { 1200 } else { 120 });
    let mut r = Rng::new(a.seed);
    // exhaustive small part: n <= 12, every shard, short ranges near both ends
    let exh_n = if a.tier == "thorough" { 40 } else { 12 };
    for n in 1..=exh_n as u16 {
        for s in 0..n {
            for (lo, hi) in [(1024u16, 1024 + 2 * n), (65535 - 2 * n, 65535), (65535 - n / 2, 65535), (65535, 65535)] {
                for k in ["I", "D"] {
                    let c = format!("{} {} {} {} {}", k, hex_u(n as u128), hex_u(s as u128), hex_u(lo as u128), hex_u(hi as u128));
                    let o = run_case(&c);
                    out.case(&c, &o);
                }
            }
        }
    }
    // shard_of: every n <= 64 x every msb 0..=63 x fixed boundary tokens + the first/last token of
    // every shard of that sharder (msb 0) resp. 4 directed near-boundary tokens (msb > 0)
    for n in 1..=64u16 {
        for msb in 0..=63u8 {
            let mut toks: Vec<i64> = vec![i64::MAX, i64::MIN + 1, 0, -1, 1];
            if msb == 0 {
                for k in 0..=n as u128 {
                    let b = ((k << 64) + n as u128 - 1) / n as u128;
                    for d in [-1i128, 0] {
                        let sh = (b as i128 + d).rem_euclid(1i128 << 64) as u64;
                        let t = sh.wrapping_sub(1u64 << 63) as i64;
                        toks.push(if t == i64::MIN { i64::MAX } else { t });
                    }
                }
            } else if exh_n >= 40 || msb % 8 == 4 {
                for _ in 0..4 {
                    toks.push(gen_token(&mut r, n, msb));
                }
            }
            for t in toks {
                let c = format!("S {} {} {}", hex_u(n as u128), hex_u(msb as u128), hex_i(t as i128));
                let o = run_case(&c);
                out.case(&c, &o);
            }
        }
    }
    // ShardInfo: the accept/reject boundary shard = nr-1 / nr / nr+1, nr = 0, directed
    for nr in [0u32, 1, 2, 255, 256, 65535] {
        for shard in [nr.saturating_sub(1), nr, nr + 1] {
            if shard > 65536 { continue; }
            let c = format!("R V:{} V:{} V:{}", enc_str(&shard.to_string()), enc_str(&nr.to_string()), enc_str("12"));
            let o = run_case(&c);
            out.case(&c, &o);
        }
    }
    // ShardAwarePortRange::new (kind N): a fixed number of cases from an own generator (the main stream below is
    // not disturbed): every (lo, hi) pair of the boundary values, lo = hi, hi = lo - 1 and hi = lo + 1 around them,
    // seeded random pairs (any order), random lo = hi, random hi = lo - 1, random pairs straddling 1024
    {
        const B: [u16; 9] = [0, 1, 1022, 1023, 1024, 1025, 49152, 65534, 65535];
        let mut cases: Vec<(u16, u16)> = Vec::new();
        for lo in B {
            for hi in B {
                cases.push((lo, hi));
            }
        }
        for b in B {
            for d in 0..=3u16 {
                let lo = b.saturating_add(d).max(1);
                cases.push((lo, lo));
                cases.push((lo, lo - 1));
                cases.push((lo.min(65534), lo.min(65534) + 1));
            }
        }
        let mut rn = Rng::new(a.seed ^ 0x4e5f_c11b_0000_0001);
        let n_rand = if a.tier == "thorough" { 20000 } else { 2000 };
        for i in 0..n_rand {
            cases.push(match i % 5 {
                0 => (rn.range(0, 65535) as u16, rn.range(0, 65535) as u16),
                1 => {
                    let lo = rn.range(0, 65535) as u16;
                    (lo, lo)
                }
                2 => {
                    let lo = rn.range(1, 65535) as u16;
                    (lo, lo - 1)
                }
                3 => (rn.range(1000, 1050) as u16, rn.range(1000, 65535) as u16),
                _ => {
                    let x = rn.range(0, 65535) as u16;
                    let y = rn.range(0, 65535) as u16;
                    (x.min(y), x.max(y))
                }
            });
        }
        for (lo, hi) in cases {
            let c = format!("N {} {}", hex_u(lo as u128), hex_u(hi as u128));
            let o = run_case(&c);
            out.case(&c, &o);
        }
    }
    for _ in 0..a.n {
        let c = match r.below(10) {
            0..=3 => {
                let n = gen_n(&mut r);
                let msb = if r.chance(1, 4) { *r.pick(&[0u8, 12, 63, 62, 1]) } else { r.below(64) as u8 };
                format!("S {} {} {}", hex_u(n as u128), hex_u(msb as u128), hex_i(gen_token(&mut r, n, msb) as i128))
            }
            4..=6 => {
                let n = gen_n(&mut r);
                let s = r.below(n as u64);
                let (lo, hi) = gen_range(&mut r, n);
                // long port lists are expensive for the model's rotation acceptor: keep most short
                let (lo, hi) = if (hi - lo) as u64 / n as u64 > 400 && !r.chance(1, 50) { (hi - (n as u64 * 400).min((hi - lo) as u64) as u16, hi) } else { (lo, hi) };
                format!("I {} {} {} {}", hex_u(n as u128), hex_u(s as u128), hex_u(lo as u128), hex_u(hi as u128))
            }
            7 | 8 => {
                let n = gen_n(&mut r);
                let s = r.below(n as u64);
                let (lo, hi) = gen_range(&mut r, n);
                format!("D {} {} {} {}", hex_u(n as u128), hex_u(s as u128), hex_u(lo as u128), hex_u(hi as u128))
            }
            _ => {
                if r.bool() {
                    format!("R {} {} {}", gen_entry(&mut r), gen_entry(&mut r), gen_entry(&mut r))
                } else {
                    format!("P {} {}", hex_u(gen_n(&mut r) as u128), hex_u(r.below(65536) as u128))
                }
            }
        };
        let o = run_case(&c);
        out.case(&c, &o);
    }
    // ---- end to end: the connect loop over the iterator, observed at the mock node ----
    if e2e_n > 0 {
        e2e::run(a.seed, e2e_n, &mut out);
    }
    out.finish();
}
