//! C01 runner: generates (CQL type, value) cases from the seed, runs the REAL codec of
//! scylla-cql-core on them and writes "<case> | <observed>" lines for the extracted model.
//!
//! Kinds: R dynamic path (CqlValue), T typed Rust carriers, V/Q typed Vec<Option<T>> bound to
//! vector / list, E a typed carrier's own decoder on arbitrary bytes, D arbitrary bytes decoded as a
//! cell by the dynamic decoder, N vint codec.  See ocaml/c01/driver.ml.
#[path = "../c01_text.rs"]
mod text;
#[path = "../c01_typed.rs"]
mod typed;

use scylla_cql_core::frame::response::result::{CollectionType, ColumnType, NativeType};
use scylla_cql_core::frame::types::verif_vint;
use scylla_cql_core::value::{
    Counter, CqlDate, CqlDecimal, CqlDuration, CqlTime, CqlTimestamp, CqlTimeuuid, CqlValue, CqlVarint,
};
use text::*;
use vh::*;

// ------------------------------------------------------------------ generators

pub fn gen_name(r: &mut Rng) -> String {
    match r.below(8) {
        0 => "".into(),
        1 => "é".into(),
        2 => "a b".into(),
        _ => {
            let n = r.range(1, 4);
            (0..n).map(|_| (b'a' + r.below(6) as u8) as char).collect()
        }
    }
}

pub fn gen_native(r: &mut Rng) -> NativeType {
    NATIVES[r.below(20) as usize].1.clone()
}

/// random column type; `depth` bounds the nesting
pub fn gen_type(r: &mut Rng, depth: u32) -> Ty {
    if depth == 0 || r.chance(1, 4) {
        return nat(gen_native(r));
    }
    match r.below(12) {
        0 | 1 => list_t(gen_type(r, depth - 1)),
        2 => set_t(gen_type(r, depth - 1)),
        3 | 4 => map_t(gen_type(r, depth - 1), gen_type(r, depth - 1)),
        5 | 6 => {
            let n = if r.chance(1, 30) { 0 } else { r.range(1, 4) };
            ColumnType::Tuple((0..n).map(|_| gen_type(r, depth - 1)).collect())
        }
        7 | 8 => {
            let n = if r.chance(1, 30) { 0 } else { r.range(1, 4) };
            let mut fs: Vec<(String, Ty)> = vec![];
            for i in 0..n {
                // mostly distinct names; sometimes a duplicate
                let nm = if r.chance(1, 25) && !fs.is_empty() { fs[0].0.clone() } else { format!("{}{}", gen_name(r), i) };
                fs.push((nm, gen_type(r, depth - 1)));
            }
            udt_t(&gen_name(r), &gen_name(r), fs)
        }
        _ => {
            let d = match r.below(12) {
                0 => 0,
                1..=4 => 1,
                5..=8 => 2,
                _ => r.range(3, 5),
            } as u16;
            // prefer element types with a fixed vector width half of the time
            let e = if r.bool() {
                nat(r.pick(&[NativeType::Int, NativeType::BigInt, NativeType::Float, NativeType::Double, NativeType::Boolean,
                             NativeType::Timestamp, NativeType::Uuid, NativeType::Timeuuid]).clone())
            } else {
                gen_type(r, depth - 1)
            };
            vec_t(e, d)
        }
    }
}

fn boundary_i(r: &mut Rng, bits: u32) -> i128 {
    let max = (1i128 << (bits - 1)) - 1;
    let min = -(1i128 << (bits - 1));
    match r.below(10) {
        0 => max,
        1 => min,
        2 => 0,
        3 => -1,
        4 => 1,
        5 => max - 1,
        6 => min + 1,
        7 => (r.u64() as i128) % 256 - 128,
        _ => {
            let v = r.u64() as i64 as i128;
            // uniform over the bit width
            if bits == 64 { v } else { (v >> (64 - bits)).clamp(min, max) }
        }
    }
}

/// integers whose zig-zag vint takes every length from 1 to 9 bytes
fn vint_boundary(r: &mut Rng) -> i64 {
    let k = r.range(0, 9) as u32; // magnitude class
    let base: u64 = if k == 0 { 0 } else { 1u64 << (7 * k - 1).min(63) };
    let u = match r.below(4) {
        0 => base,
        1 => base.wrapping_sub(1),
        2 => base.wrapping_add(1),
        _ => base.wrapping_add(r.u64() % base.max(1)),
    };
    // decode as zig-zag so both signs appear
    ((u >> 1) as i64) ^ -((u & 1) as i64)
}

fn gen_utf8(r: &mut Rng) -> String {
    let n = match r.below(6) {
        0 => 0,
        1 => 1,
        _ => r.range(1, 6),
    };
    (0..n)
        .map(|_| match r.below(8) {
            0 => 'é',
            1 => '€',
            2 => '😀',
            3 => '\u{7f}',
            4 => '\0',
            5 => '\u{10ffff}',
            _ => (b' ' + r.below(95) as u8) as char,
        })
        .collect()
}
fn gen_ascii(r: &mut Rng) -> String {
    let n = match r.below(6) {
        0 => 0,
        _ => r.range(1, 6),
    };
    (0..n).map(|_| (r.below(128) as u8) as char).collect()
}
fn gen_bytes(r: &mut Rng) -> Vec<u8> {
    let n = match r.below(8) {
        0 => 0,
        1 => 1,
        2 => r.range(120, 140) as usize, // around the 1-byte / 2-byte vint length boundary
        _ => r.range(1, 9) as usize,
    };
    let mut b = r.bytes(n);
    if r.chance(1, 4) && !b.is_empty() {
        b[0] = *r.pick(&[0u8, 0xff, 0x80, 0x7f]);
    }
    b
}
fn gen_varint_bytes(r: &mut Rng) -> Vec<u8> {
    match r.below(10) {
        0 => vec![0],
        1 => vec![0, 0, 1],          // non-normalised positive
        2 => vec![0xff, 0xff, 0x80], // non-normalised negative
        3 => vec![0x00, 0x80],
        4 => vec![0xff],
        5 => vec![], // not a varint: zero bytes
        _ => {
            let mut b = gen_bytes(r);
            if b.is_empty() {
                b.push(1);
            }
            b
        }
    }
}

/// directed inet addresses: a 16-byte value must stay 16 bytes whatever it "means"
pub const INET_DIRECTED: [&[u8]; 12] = [
    &[0, 0, 0, 0, 0, 0, 0, 0, 0, 0, 0xff, 0xff, 1, 2, 3, 4],             // IPv4-mapped ::ffff:1.2.3.4
    &[0, 0, 0, 0, 0, 0, 0, 0, 0, 0, 0xff, 0xff, 0, 0, 0, 0],             // ::ffff:0.0.0.0
    &[0, 0, 0, 0, 0, 0, 0, 0, 0, 0, 0xff, 0xff, 255, 255, 255, 255],     // ::ffff:255.255.255.255
    &[0, 0, 0, 0, 0, 0, 0, 0, 0, 0, 0, 0, 1, 2, 3, 4],                   // IPv4-compatible ::1.2.3.4
    &[0; 16],                                                             // ::
    &[0, 0, 0, 0, 0, 0, 0, 0, 0, 0, 0, 0, 0, 0, 0, 1],                   // ::1
    &[0xff; 16],                                                          // all ones
    &[0x00, 0x64, 0xff, 0x9b, 0, 0, 0, 0, 0, 0, 0, 0, 1, 2, 3, 4],       // NAT64 64:ff9b::1.2.3.4
    &[0x20, 0x02, 1, 2, 3, 4, 0, 0, 0, 0, 0, 0, 0, 0, 0, 0],             // 6to4
    &[0, 0, 0, 0],                                                        // 0.0.0.0
    &[255, 255, 255, 255],                                                // 255.255.255.255
    &[127, 0, 0, 1],
];
pub fn gen_inet(r: &mut Rng) -> std::net::IpAddr {
    match r.below(10) {
        0..=3 => inet_of(INET_DIRECTED[r.below(INET_DIRECTED.len() as u64) as usize]).unwrap(),
        4 => {
            // random IPv4-mapped
            let mut b = vec![0u8; 10];
            b.extend([0xff, 0xff]);
            b.extend(r.bytes(4));
            inet_of(&b).unwrap()
        }
        5 | 6 => inet_of(&r.bytes(4)).unwrap(),
        _ => inet_of(&r.bytes(16)).unwrap(),
    }
}

pub fn gen_native_value(r: &mut Rng, n: &NativeType) -> CqlValue {
    match n {
        NativeType::Ascii => {
            if r.chance(1, 12) { CqlValue::Text(gen_ascii(r)) } else { CqlValue::Ascii(gen_ascii(r)) }
        }
        NativeType::Text => {
            if r.chance(1, 12) { CqlValue::Ascii(gen_utf8(r)) } else { CqlValue::Text(gen_utf8(r)) }
        }
        NativeType::Boolean => CqlValue::Boolean(r.bool()),
        NativeType::Blob => CqlValue::Blob(gen_bytes(r)),
        NativeType::Counter => CqlValue::Counter(Counter(boundary_i(r, 64) as i64)),
        NativeType::Date => CqlValue::Date(CqlDate(match r.below(5) {
            0 => 0,
            1 => u32::MAX,
            2 => 1 << 31,
            _ => r.u64() as u32,
        })),
        NativeType::Decimal => CqlValue::Decimal(CqlDecimal::from_signed_be_bytes_and_exponent(
            if r.chance(1, 10) { vec![] } else { gen_varint_bytes(r) },
            boundary_i(r, 32) as i32,
        )),
        NativeType::Double => CqlValue::Double(f64::from_bits(match r.below(8) {
            0 => 0x7ff8_0000_0000_0001, // quiet NaN with payload
            1 => 0x7ff0_0000_0000_0001, // signalling NaN
            2 => 0xfff8_dead_beef_0000,
            3 => 0x8000_0000_0000_0000,
            4 => 0x7ff0_0000_0000_0000,
            _ => r.u64(),
        })),
        NativeType::Float => CqlValue::Float(f32::from_bits(match r.below(8) {
            0 => 0x7fc0_0001,
            1 => 0x7f80_0001,
            2 => 0xffc1_2345,
            3 => 0x8000_0000,
            4 => 0x7f80_0000,
            _ => r.u64() as u32,
        })),
        NativeType::Duration => CqlValue::Duration(if r.bool() {
            CqlDuration { months: boundary_i(r, 32) as i32, days: boundary_i(r, 32) as i32, nanoseconds: boundary_i(r, 64) as i64 }
        } else {
            CqlDuration {
                months: vint_boundary(r).clamp(i32::MIN as i64, i32::MAX as i64) as i32,
                days: vint_boundary(r).clamp(i32::MIN as i64, i32::MAX as i64) as i32,
                nanoseconds: vint_boundary(r),
            }
        }),
        NativeType::Int => CqlValue::Int(boundary_i(r, 32) as i32),
        NativeType::BigInt => CqlValue::BigInt(boundary_i(r, 64) as i64),
        NativeType::Timestamp => CqlValue::Timestamp(CqlTimestamp(boundary_i(r, 64) as i64)),
        NativeType::Inet => CqlValue::Inet(gen_inet(r)),
        NativeType::SmallInt => CqlValue::SmallInt(boundary_i(r, 16) as i16),
        NativeType::TinyInt => CqlValue::TinyInt(boundary_i(r, 8) as i8),
        NativeType::Time => CqlValue::Time(CqlTime(match r.below(8) {
            0 => 0,
            1 => 86399999999999,
            2 => 86400000000000, // out of the type's range: accepted by the writer, refused by the reader
            3 => -1,
            _ => (r.u64() % 86400000000000) as i64,
        })),
        NativeType::Timeuuid => CqlValue::Timeuuid(CqlTimeuuid::from_bytes(r.bytes(16).try_into().unwrap())),
        NativeType::Uuid => CqlValue::Uuid(uuid::Uuid::from_bytes(r.bytes(16).try_into().unwrap())),
        NativeType::Varint => CqlValue::Varint(CqlVarint::from_signed_bytes_be(gen_varint_bytes(r))),
        _ => CqlValue::Empty,
    }
}

fn supports_empty(t: &Ty) -> bool {
    t.supports_special_empty_value()
}

fn gen_len(r: &mut Rng) -> usize {
    match r.below(8) {
        0 | 1 => 0,
        2 | 3 => 1,
        _ => r.range(2, 4) as usize,
    }
}

/// a value for `t`: mostly of the type; `noise` (0..=3) adds constructor / arity / name mismatches
pub fn gen_value(r: &mut Rng, t: &Ty, noise: u64) -> CqlValue {
    if noise > 0 && r.chance(noise, 60) {
        // a value of some unrelated type
        let t2 = gen_type(r, 1);
        return gen_value(r, &t2, 0);
    }
    if r.chance(1, 14) && (supports_empty(t) || r.chance(1, 6)) {
        return CqlValue::Empty;
    }
    match t {
        ColumnType::Native(n) => gen_native_value(r, n),
        ColumnType::Collection { typ: CollectionType::List(e), .. } | ColumnType::Collection { typ: CollectionType::Set(e), .. } => {
            let n = gen_len(r);
            let l = (0..n).map(|_| gen_value(r, e, noise)).collect();
            let is_list = matches!(t, ColumnType::Collection { typ: CollectionType::List(_), .. });
            match r.below(12) {
                0 => CqlValue::Vector(l),
                1 => if is_list { CqlValue::Set(l) } else { CqlValue::List(l) },
                _ => if is_list { CqlValue::List(l) } else { CqlValue::Set(l) },
            }
        }
        ColumnType::Collection { typ: CollectionType::Map(k, v), .. } => {
            let n = gen_len(r);
            CqlValue::Map((0..n).map(|_| (gen_value(r, k, noise), gen_value(r, v, noise))).collect())
        }
        ColumnType::Vector { typ: e, dimensions } => {
            let n = if r.chance(1, 25) { gen_len(r) } else { *dimensions as usize };
            let l = (0..n).map(|_| gen_value(r, e, noise)).collect();
            match r.below(12) {
                0 => CqlValue::List(l),
                1 => CqlValue::Set(l),
                _ => CqlValue::Vector(l),
            }
        }
        ColumnType::Tuple(ts) => {
            // short tuples, nulls at every position, occasionally too long
            let n = match r.below(6) {
                0 => r.below(ts.len() as u64 + 1) as usize,
                1 if noise > 0 => ts.len() + 1,
                _ => ts.len(),
            };
            let dummy = nat(NativeType::Int);
            CqlValue::Tuple(
                (0..n)
                    .map(|i| if r.chance(1, 4) { None } else { Some(gen_value(r, ts.get(i).unwrap_or(&dummy), noise)) })
                    .collect(),
            )
        }
        ColumnType::UserDefinedType { definition, .. } => {
            let mut fields: Vec<(String, Option<CqlValue>)> = vec![];
            for (fname, ft) in &definition.field_types {
                match r.below(8) {
                    0 => {}                                                  // field absent
                    1 => fields.push((fname.to_string(), None)),             // explicit null
                    _ => fields.push((fname.to_string(), Some(gen_value(r, ft, noise)))),
                }
            }
            if r.chance(1, 3) {
                r.shuffle(&mut fields); // the value's field order is irrelevant: fields are matched by name
            }
            if noise > 0 && r.chance(1, 12) {
                fields.push(("nosuchfield".into(), Some(CqlValue::Int(1))));
            }
            if noise > 0 && r.chance(1, 20) && !fields.is_empty() {
                let f = fields[0].clone();
                fields.push(f); // duplicate entry
            }
            let (ks, nm) = (definition.keyspace.to_string(), definition.name.to_string());
            let (ks, nm) = if noise > 0 && r.chance(1, 25) { (nm.clone(), ks) } else { (ks, nm) };
            CqlValue::UserDefinedType { keyspace: ks, name: nm, fields }
        }
        _ => CqlValue::Empty,
    }
}

pub fn gen_cell(r: &mut Rng, t: &Ty, noise: u64) -> Cell {
    match r.below(30) {
        0 => Cell::Null,
        1 => Cell::Unset,
        _ => Cell::Val(gen_value(r, t, noise)),
    }
}

// ------------------------------------------------------------------ cases

fn err_case(e: String) -> String {
    format!("error bad-case:{}", e.replace(' ', "_"))
}

fn run_case(case: &str) -> String {
    let f: Vec<&str> = case.split_whitespace().collect();
    match f.as_slice() {
        ["R", ts, cs] => {
            let (t, c) = match (type_of_str(ts), cell_of_str(cs)) {
                (Ok(t), Ok(c)) => (t, c),
                (Err(e), _) | (_, Err(e)) => return err_case(e),
            };
            run_dynamic(&t, &c)
        }
        ["T", carrier, ts, cs] => {
            let (t, c) = match (type_of_str(ts), cell_of_str(cs)) {
                (Ok(t), Ok(c)) => (t, c),
                (Err(e), _) | (_, Err(e)) => return err_case(e),
            };
            typed::run_typed(carrier, &t, &c).unwrap_or_else(err_case)
        }
        [k @ ("V" | "Q"), carrier, ets, dims, cs] => {
            let (e, cells) = match (type_of_str(ets), cells_of_str(cs)) {
                (Ok(t), Ok(c)) => (t, c),
                (Err(e), _) | (_, Err(e)) => return err_case(e),
            };
            let dim = u16::from_str_radix(dims, 16).unwrap_or(0);
            // Q: the 4th field selects the collection type the cells are bound to (0 = list, 1 = set)
            let t = if *k == "V" { vec_t(e.clone(), dim) } else if dim == 1 { set_t(e.clone()) } else { list_t(e.clone()) };
            typed::run_cells(carrier, &t, &e, &cells).unwrap_or_else(err_case)
        }
        ["E", carrier, ts, hx] => {
            let (t, b) = match (type_of_str(ts), unhex(hx)) {
                (Ok(t), Ok(b)) => (t, b),
                (Err(e), _) | (_, Err(e)) => return err_case(e),
            };
            typed::run_decode(carrier, &t, &b).unwrap_or_else(err_case)
        }
        ["D", ts, hx] => {
            let (t, b) = match (type_of_str(ts), unhex(hx)) {
                (Ok(t), Ok(b)) => (t, b),
                (Err(e), _) | (_, Err(e)) => return err_case(e),
            };
            match catch(move || deser_dynamic(&t, &b)) {
                Ok(r) => fmt_deser(&r),
                Err(_) => "panic".into(),
            }
        }
        ["N", "u", v] => {
            let v = u64::from_str_radix(v, 16).unwrap();
            let enc = verif_vint::unsigned_vint_encode(v);
            let dec = match verif_vint::unsigned_vint_decode(&enc) {
                Ok((x, n)) if n == enc.len() => format!("ok:{:x}", x),
                _ => "err".into(),
            };
            format!("{} {}", hex_bytes(&enc), dec)
        }
        ["N", "s", v] => {
            let v = if let Some(r) = v.strip_prefix('-') { (-(i128::from_str_radix(r, 16).unwrap())) as i64 } else { i64::from_str_radix(v, 16).unwrap() };
            let enc = verif_vint::vint_encode(v);
            let dec = match verif_vint::vint_decode(&enc) {
                Ok((x, n)) if n == enc.len() => format!("ok:{}", hex_i(x as i128)),
                _ => "err".into(),
            };
            format!("{} {}", hex_bytes(&enc), dec)
        }
        ["N", "d", hx] => {
            let b = unhex(hx).unwrap();
            match verif_vint::unsigned_vint_decode(&b) {
                Ok((x, n)) => format!("ok:{:x}:{:x}", x, n),
                Err(()) => "err".into(),
            }
        }
        _ => "error unknown-case".into(),
    }
}

/// a corrupted / truncated / random byte string for the decoder stream
pub fn mutate(r: &mut Rng, b: &[u8]) -> Vec<u8> {
    let mut v = b.to_vec();
    match r.below(7) {
        0 => {
            let n = r.below(v.len() as u64 + 1) as usize;
            v.truncate(n);
        }
        1 if !v.is_empty() => {
            let i = r.below(v.len() as u64) as usize;
            v[i] ^= 1 << r.below(8);
        }
        2 if !v.is_empty() => {
            let i = r.below(v.len() as u64) as usize;
            v[i] = *r.pick(&[0u8, 0xff, 0x80, 0x7f, 1]);
        }
        3 => {
            let n = r.range(1, 4) as usize;
            v.extend(r.bytes(n));
        }
        4 if v.len() >= 4 => {
            // rewrite the outer length
            let l = (v.len() as i32 - 4) + r.range(0, 4) as i32 - 2;
            v[..4].copy_from_slice(&l.to_be_bytes());
        }
        5 => {
            let n = r.range(0, 12) as usize;
            v = r.bytes(n);
        }
        _ => {}
    }
    v
}

fn main() {
    let a = parse_args();
    quiet_panics();
    let mut out = Out::create(&a.out);
    if let Some(p) = &a.replay {
        for c in read_cases(p) {
            let o = run_case(&c);
            out.case(&c, &o);
        }
        out.finish();
        return;
    }
    let mut r = Rng::new(a.seed);
    let depth = if a.tier == "thorough" { 6 } else { 4 };
    let emit = |out: &mut Out, c: String| {
        let o = run_case(&c);
        out.case(&c, &o);
    };

    // fixed part: vint boundaries for every length class, both directions
    for k in 0..=64u32 {
        let base: u64 = if k == 64 { u64::MAX } else { 1u64 << k };
        for v in [base, base.wrapping_sub(1), base.wrapping_add(1)] {
            emit(&mut out, format!("N u {:x}", v));
            emit(&mut out, format!("N s {}", hex_i(v as i64 as i128)));
            emit(&mut out, format!("N s {}", hex_i((v as i64).wrapping_neg() as i128)));
        }
    }
    // fixed part: every native type x empty cell / null / unset
    for (name, _) in NATIVES.iter() {
        for c in ["empty", "null", "unset"] {
            emit(&mut out, format!("R {} {}", name, c));
        }
    }

    // fixed part: directed inet addresses (IPv4-mapped / -compatible, ::, ::1, all ones, v4 extremes) through the
    // dynamic path, the typed carriers and nested positions
    for b in INET_DIRECTED.iter() {
        let v = format!("inet:{}", hex_bytes(b));
        emit(&mut out, format!("R inet {}", v));
        emit(&mut out, format!("R L(inet) list({};{})", v, v));
        emit(&mut out, format!("R S(inet) set({})", v));
        emit(&mut out, format!("R M(inet;inet) map({}={})", v, v));
        emit(&mut out, format!("R T(int;inet) tuple(null;{})", v));
        emit(&mut out, format!("R U(6b;75;61:inet;62:int) udt(6b;75;61={})", v));
        emit(&mut out, format!("R V(inet;2) vector({};{})", v, v));
        for carrier in ["IpAddr", "Option<IpAddr>", "MaybeEmpty<IpAddr>", "CqlValue", "Option<CqlValue>"] {
            emit(&mut out, format!("T {} inet {}", carrier, v));
        }
        emit(&mut out, format!("T Vec<IpAddr> L(inet) list({})", v));
        emit(&mut out, format!("T Vec<IpAddr> V(inet;1) vector({})", v));
        emit(&mut out, format!("T Vec<CqlValue> L(inet) list({})", v));
        emit(&mut out, format!("T (CqlValue,Option<CqlValue>) T(inet;inet) tuple({};{})", v, v));
    }
    // fixed part: long payloads (3-byte vint element lengths, >= 16 384 bytes) and wide collections, once per run
    {
        let big = |n: usize, r: &mut Rng| hex_bytes(&r.bytes(n));
        let (b1, b2, b3) = (big(16384, &mut r), big(16383, &mut r), big(20000, &mut r));
        emit(&mut out, format!("R V(blob;3) vector(blob:{};blob:{};blob:{})", b1, b2, b3));
        emit(&mut out, format!("T Vec<Vec<u8>> V(blob;2) vector(blob:{};blob:{})", b1, b3));
        let txt: String = (0..16500).map(|i| (b'a' + (i % 26) as u8) as char).collect();
        emit(&mut out, format!("R V(text;2) vector(text:{};text:-)", hex_bytes(txt.as_bytes())));
        let many: Vec<String> = (0..300).map(|i| format!("int:{}", hex_i((i * 7919 - 1000) as i128))).collect();
        emit(&mut out, format!("R L(int) list({})", many.join(";")));
        emit(&mut out, format!("R V(int;12c) vector({})", many.join(";")));
        emit(&mut out, format!("T Vec<i32> V(int;12c) vector({})", many.join(";")));
        let kv: Vec<String> = (0..260).map(|i| format!("int:{}=text:{}", hex_i(i as i128), hex_bytes(format!("v{}", i).as_bytes()))).collect();
        emit(&mut out, format!("R M(int;text) map({})", kv.join(";")));
    }

    for _ in 0..a.n {
        match r.below(100) {
            // dynamic path, values of the type
            0..=39 => {
                let d = r.range(0, depth as u64).max(r.range(0, depth as u64)) as u32;
                let t = gen_type(&mut r, d);
                let c = gen_cell(&mut r, &t, 0);
                emit(&mut out, format!("R {} {}", s_type(&t), s_cell(&c)));
            }
            // dynamic path with mismatches (type errors, arity, names)
            40..=47 => {
                let d = r.range(0, depth as u64).max(r.range(0, depth as u64)) as u32;
                let t = gen_type(&mut r, d);
                let c = gen_cell(&mut r, &t, 3);
                emit(&mut out, format!("R {} {}", s_type(&t), s_cell(&c)));
            }
            // typed carriers
            48..=84 => {
                if let Some(c) = typed::gen_typed_case(&mut r, depth) {
                    emit(&mut out, c);
                }
            }
            // typed Vec<Option<T>> bound to vectors / lists
            85..=87 => emit(&mut out, typed::gen_cells_case(&mut r)),
            // typed decoders on intact / corrupted encodings and null cells
            88..=90 => {
                if r.chance(1, 6) {
                    emit(&mut out, typed::gen_null_elem_case(&mut r));
                } else if let Some(c) = typed::gen_decode_case(&mut r, &mutate) {
                    emit(&mut out, c);
                }
            }
            // decoder on corrupted encodings
            91..=95 => {
                let d = r.range(0, depth.min(3) as u64) as u32;
                let t = gen_type(&mut r, d);
                let c = gen_cell(&mut r, &t, 0);
                let b = ser_dynamic(&t, &c).unwrap_or_default();
                let m = mutate(&mut r, &b);
                emit(&mut out, format!("D {} {}", s_type(&t), hex_bytes(&m)));
            }
            // vint codec
            _ => match r.below(3) {
                0 => emit(&mut out, format!("N u {:x}", r.u64() >> r.below(64))),
                1 => emit(&mut out, format!("N s {}", hex_i((r.i64() >> r.below(64)) as i128))),
                _ => {
                    let n = r.range(0, 10) as usize;
                    let mut b = r.bytes(n);
                    if !b.is_empty() && r.bool() {
                        b[0] = *r.pick(&[0x80u8, 0xc0, 0xe0, 0xf0, 0xf8, 0xfc, 0xfe, 0xff, 0x7f]);
                    }
                    emit(&mut out, format!("N d {}", hex_bytes(&b)));
                }
            },
        }
    }
    out.finish();
}
