use scylla::cluster::verif_node::node_without_pool;
use scylla::cluster::{Node, NodeAddr};
use scylla::routing::locator::verif_tablets::*;
use std::collections::{HashMap, HashSet};
use std::sync::Arc;
use uuid::Uuid;
use vh::*;

fn node(h: u128, dc: Option<&str>, g: u32) -> Arc<Node> {
    Arc::new(node_without_pool(
        Uuid::from_u128(h),
        NodeAddr::Translatable(std::net::SocketAddr::from(([255, 255, 255, 255], 0))),
        dc.map(|s| s.to_string()),
        Some(format!("g{}", g)),
    ))
}
fn map(ns: &[&Arc<Node>]) -> HashMap<Uuid, Arc<Node>> {
    ns.iter().map(|n| (n.host_id, Arc::clone(n))).collect()
}
fn main() {
    quiet_panics();
    let ks = vec![KeyspaceDesc { name: "ks".into(), tablet_based: true, tables: vec!["t".into()], views: vec![] }];
    // probe 1: DC change of a recreated node
    let mut v = VerifTablets::new();
    let x = node(1, Some("A"), 0);
    let y = node(2, Some("A"), 0);
    let known = map(&[&x, &y]);
    v.learn_raw("ks", "t", 0, 10, &[(x.host_id, 0), (y.host_id, 1)], &known);
    let x2 = node(1, Some("B"), 1);
    let cur = map(&[&x2, &y]);
    let rec = map(&[&x2]);
    v.perform_maintenance(&ks, &HashSet::new(), &cur, &rec);
    for dc in ["A", "B"] {
        let r = v.dc_replicas_for_token("ks", "t", 5, dc).unwrap().unwrap();
        println!("dc {} -> {:?}", dc, r.iter().map(|(n, s)| (n.host_id.as_u128(), n.datacenter.clone(), n.rack.clone(), *s)).collect::<Vec<_>>());
    }
    // probe 2: unknown replica resolved in the same refresh that recreates another replica
    let mut v = VerifTablets::new();
    let x = node(1, Some("A"), 0);
    let known = map(&[&x]);
    let unresolved = v.learn_raw("ks", "t", 0, 10, &[(x.host_id, 0), (Uuid::from_u128(2), 1)], &known);
    println!("unresolved={}", unresolved);
    let x2 = node(1, Some("A"), 1);
    let u = node(2, Some("A"), 0);
    let cur = map(&[&x2, &u]);
    let rec = map(&[&x2]);
    let r = catch(std::panic::AssertUnwindSafe(move || { v.perform_maintenance(&ks, &HashSet::new(), &cur, &rec); v }));
    match r { Ok(_) => println!("probe2: no panic"), Err(e) => println!("probe2: PANIC {}", e) }
}
