//! C15 runner (`sm` engine): drives the REAL TabletsInfo / TableTablets / RawTablet code through
//! hook H6 (`scylla::routing::locator::verif_tablets`) with whole histories of operations and
//! records, after every step, the complete observable state of the watched tables: flags, the
//! tablet list (ranges, replicas, unresolved replicas) and the three lookups for every watched token.
//!
//! One case line = one history:
//!   H? <tables> <tokens> <dcs> <op> <op> ... | <obs step 1> <obs step 2> ...
//! H? = generator part: Hs scenario, Hx reachable-set exhaustive, Hm reachable set + maintenance + every insert, Ha short exhaustive alphabet, Ht several tables (short exhaustive alphabet), Hr random over the
//! 8-point universe, Hi / Hl random over i64 (short / long), Hd random with datacenter-changing recreations
//! tables  ks.tb,ks.tb            (hex)            watched tables
//! tokens  t,t,...                (signed hex)     watched tokens
//! dcs     d,d,...                (hex)            watched datacenters
//! Pb <value bytes hex | N (key absent)> | none | a:<first>:<last>:<host.shard,..> | rDeserialization:<leaf kind> | rWrongTokenRange | rShardNum   (from_custom_payload alone)
//! Pe <a> <b> <host.shard,..> | <value bytes of the crate's CQL serialiser> <value bytes of the harness' encoder> <decode tag of those>
//! op      B/<ks>.<tb>/<value bytes hex | N>/<known nodes>     (result tag as for Pb)
//!         L/<ks>.<tb>/<a>/<b>/<h>.<shard>,.. | -/<known nodes>
//!         M/<keyspaces>/<removed hosts>/<current nodes>/<recreated nodes>
//!   node      <host>.<gen>.<dc|n>         keyspace  <ks>:<0|1>:<t+t|->:<v+v|->
//! obs     <res>~<info flag>~<table>~<table>...    res: a | rWrongTokenRange | rShardNum | m | panic
//!   table   A | <flag>[<tablet>;...]@<lookup>@<lookup>...
//!   tablet  <first>:<last>:<replicas>:<failed|n>      replica <host>.<gen>.<dc|n>.<shard>
//!   lookup  n | <first>:<last>:<all>:<dc list>/<dc list>... | =<index of an earlier token of the table with the same answer>
use bytes::Bytes;
use scylla::cluster::verif_node::node_without_pool;
use scylla::cluster::{Node, NodeAddr};
use scylla::routing::locator::verif_tablets::{KeyspaceDesc, Replica, TabletView, VerifTablets};
use scylla_cql_core::deserialize::DeserializationError;
use scylla_cql_core::deserialize::value::{
    BuiltinDeserializationError, BuiltinDeserializationErrorKind as DK, SetOrListDeserializationErrorKind,
    TupleDeserializationErrorKind,
};
use scylla_cql_core::frame::frame_errors::LowLevelDeserializationError;
use scylla_cql_core::frame::response::result::{CollectionType, ColumnType, NativeType};
use scylla_cql_core::serialize::value::SerializeValue;
use scylla_cql_core::serialize::writers::CellWriter;
use scylla_cql_core::value::CqlValue;
use std::collections::{BTreeSet, HashMap, HashSet, VecDeque};
use std::fmt::Write as _;
use std::sync::Arc;
use uuid::Uuid;
use vh::*;

const PAYLOAD_KEY: &str = "tablets-routing-v1";

// ---------------------------------------------------------------- operations

#[derive(Clone, Debug, PartialEq, Eq, Hash)]
struct NodeD {
    host: u128,
    generation: u32,
    dc: Option<u32>,
}
#[derive(Clone, Debug)]
struct KsD {
    ks: u32,
    tablet_based: bool,
    tables: Vec<u32>,
    views: Vec<u32>,
}
#[derive(Clone, Debug)]
enum Op {
    Learn { ks: u32, tb: u32, a: i64, b: i64, raw: Vec<(u128, i32)>, known: Vec<NodeD> },
    Maintain { kss: Vec<KsD>, removed: Vec<u128>, current: Vec<NodeD>, recreated: Vec<NodeD> },
    /// ClusterState::perform_tablets_maintenance(tablets, old_known_nodes, new_known_nodes, keyspaces)
    Refresh { kss: Vec<KsD>, old: Vec<NodeD>, new: Vec<NodeD> },
    /// a custom payload whose "tablets-routing-v1" value is the given byte string (None: key absent)
    LearnBytes { ks: u32, tb: u32, bytes: Option<Vec<u8>>, known: Vec<NodeD> },
}
fn kss_s(kss: &[KsD]) -> String {
    join(kss, ",", |k| {
        format!(
            "{}:{}:{}:{}",
            hex_u(k.ks as u128),
            k.tablet_based as u8,
            join(&k.tables, "+", |t| hex_u(*t as u128)),
            join(&k.views, "+", |t| hex_u(*t as u128))
        )
    })
}
fn p_kss(s: &str) -> Vec<KsD> {
    p_list(s, ',')
        .iter()
        .map(|x| {
            let g: Vec<&str> = x.split(':').collect();
            KsD {
                ks: p_u(g[0]) as u32,
                tablet_based: g[1] == "1",
                tables: p_list(g[2], '+').iter().map(|t| p_u(t) as u32).collect(),
                views: p_list(g[3], '+').iter().map(|t| p_u(t) as u32).collect(),
            }
        })
        .collect()
}
fn ks_descs(kss: &[KsD]) -> Vec<KeyspaceDesc> {
    kss.iter()
        .map(|k| KeyspaceDesc {
            name: format!("ks{:x}", k.ks),
            tablet_based: k.tablet_based,
            tables: k.tables.iter().map(|t| format!("t{:x}", t)).collect(),
            views: k.views.iter().map(|t| format!("t{:x}", t)).collect(),
        })
        .collect()
}

fn join<T>(xs: &[T], sep: &str, f: impl Fn(&T) -> String) -> String {
    if xs.is_empty() {
        "-".into()
    } else {
        xs.iter().map(f).collect::<Vec<_>>().join(sep)
    }
}
fn dc_s(d: &Option<u32>) -> String {
    match d {
        Some(d) => hex_u(*d as u128),
        None => "n".into(),
    }
}
fn node_s(n: &NodeD) -> String {
    format!("{}.{}.{}", hex_u(n.host), hex_u(n.generation as u128), dc_s(&n.dc))
}
fn op_s(o: &Op) -> String {
    match o {
        Op::Learn { ks, tb, a, b, raw, known } => format!(
            "L/{}.{}/{}/{}/{}/{}",
            hex_u(*ks as u128),
            hex_u(*tb as u128),
            hex_i(*a as i128),
            hex_i(*b as i128),
            join(raw, ",", |(h, s)| format!("{}.{}", hex_u(*h), hex_i(*s as i128))),
            join(known, ",", node_s)
        ),
        Op::Maintain { kss, removed, current, recreated } => format!(
            "M/{}/{}/{}/{}",
            join(kss, ",", |k| format!(
                "{}:{}:{}:{}",
                hex_u(k.ks as u128),
                k.tablet_based as u8,
                join(&k.tables, "+", |t| hex_u(*t as u128)),
                join(&k.views, "+", |t| hex_u(*t as u128))
            )),
            join(removed, ",", |h| hex_u(*h)),
            join(current, ",", node_s),
            join(recreated, ",", node_s)
        ),
        Op::Refresh { kss, old, new } => format!("R/{}/{}/{}", kss_s(kss), join(old, ",", node_s), join(new, ",", node_s)),
        Op::LearnBytes { ks, tb, bytes, known } => format!(
            "B/{}.{}/{}/{}",
            hex_u(*ks as u128),
            hex_u(*tb as u128),
            match bytes {
                None => "N".to_string(),
                Some(b) => hex_bytes(b),
            },
            join(known, ",", node_s)
        ),
    }
}

fn p_u(s: &str) -> u128 {
    u128::from_str_radix(s, 16).expect("hex")
}
fn p_i(s: &str) -> i128 {
    if let Some(r) = s.strip_prefix('-') { -(p_u(r) as i128) } else { p_u(s) as i128 }
}
fn p_list<'a>(s: &'a str, sep: char) -> Vec<&'a str> {
    if s == "-" { vec![] } else { s.split(sep).collect() }
}
fn p_hexbytes(s: &str) -> Option<Vec<u8>> {
    match s {
        "N" => None,
        "-" => Some(vec![]),
        _ => Some((0..s.len() / 2).map(|i| u8::from_str_radix(&s[2 * i..2 * i + 2], 16).unwrap()).collect()),
    }
}
/// RawTablet::from_custom_payload on the given value bytes, decoded content visible
fn decode_tag(bytes: &Option<Vec<u8>>) -> Option<String> {
    let payload: HashMap<String, Bytes> = match bytes {
        None => HashMap::from([("some-other-key".to_string(), Bytes::from_static(&[1, 2, 3]))]),
        Some(b) => HashMap::from([(PAYLOAD_KEY.to_string(), Bytes::from(b.clone()))]),
    };
    use scylla::routing::locator::verif_tablets::{VerifPayloadError, raw_tablet_from_payload_full};
    let r = catch(std::panic::AssertUnwindSafe(|| raw_tablet_from_payload_full(&payload)));
    match r {
        Err(_) => None,
        Ok(None) => Some("none".into()),
        Ok(Some(Ok((f, l, reps)))) => Some(format!(
            "a:{}:{}:{}",
            hex_i(f as i128),
            hex_i(l as i128),
            join(&reps, ",", |(u, sh)| format!("{}.{}", hex_u(u.as_u128()), hex_u(*sh as u128)))
        )),
        Ok(Some(Err(VerifPayloadError::Deserialization(e)))) => Some(format!("rDeserialization:{}", de_leaf(&e))),
        Ok(Some(Err(VerifPayloadError::TypeCheck))) => Some("rTypeCheck".into()),
        Ok(Some(Err(VerifPayloadError::ShardNum))) => Some("rShardNum".into()),
        Ok(Some(Err(VerifPayloadError::WrongTokenRange))) => Some("rWrongTokenRange".into()),
    }
}
/// the innermost kind of a (nested) typed deserialisation error
fn de_leaf(e: &DeserializationError) -> String {
    if let Some(b) = e.downcast_ref::<BuiltinDeserializationError>() {
        return match &b.kind {
            DK::RawCqlBytesReadError(_) => "RawCqlBytesRead".into(),
            DK::ExpectedNonNull => "ExpectedNonNull".into(),
            DK::ByteLengthMismatch { .. } => "ByteLengthMismatch".into(),
            DK::SetOrListError(SetOrListDeserializationErrorKind::LengthDeserializationFailed(_)) => "LengthDeser".into(),
            DK::SetOrListError(SetOrListDeserializationErrorKind::ElementDeserializationFailed(i)) => de_leaf(i),
            DK::TupleError(TupleDeserializationErrorKind::FieldDeserializationFailed { err, .. }) => de_leaf(err),
            k => format!("Other:{:?}", k).replace(' ', "_"),
        };
    }
    if e.downcast_ref::<LowLevelDeserializationError>().is_some() {
        // impl_tuple wraps a failed [bytes] read of a field directly
        return "RawCqlBytesRead".into();
    }
    "Other".into()
}
fn p_dc(s: &str) -> Option<u32> {
    if s == "n" { None } else { Some(p_u(s) as u32) }
}
fn p_node(s: &str) -> NodeD {
    let f: Vec<&str> = s.split('.').collect();
    NodeD { host: p_u(f[0]), generation: p_u(f[1]) as u32, dc: p_dc(f[2]) }
}
fn p_op(s: &str) -> Op {
    let f: Vec<&str> = s.split('/').collect();
    match f[0] {
        "L" => {
            let kt: Vec<&str> = f[1].split('.').collect();
            Op::Learn {
                ks: p_u(kt[0]) as u32,
                tb: p_u(kt[1]) as u32,
                a: p_i(f[2]) as i64,
                b: p_i(f[3]) as i64,
                raw: p_list(f[4], ',')
                    .iter()
                    .map(|x| {
                        let (h, s) = x.split_once('.').unwrap();
                        (p_u(h), p_i(s) as i32)
                    })
                    .collect(),
                known: p_list(f[5], ',').iter().map(|x| p_node(x)).collect(),
            }
        }
        "M" => Op::Maintain {
            kss: p_list(f[1], ',')
                .iter()
                .map(|x| {
                    let g: Vec<&str> = x.split(':').collect();
                    KsD {
                        ks: p_u(g[0]) as u32,
                        tablet_based: g[1] == "1",
                        tables: p_list(g[2], '+').iter().map(|t| p_u(t) as u32).collect(),
                        views: p_list(g[3], '+').iter().map(|t| p_u(t) as u32).collect(),
                    }
                })
                .collect(),
            removed: p_list(f[2], ',').iter().map(|x| p_u(x)).collect(),
            current: p_list(f[3], ',').iter().map(|x| p_node(x)).collect(),
            recreated: p_list(f[4], ',').iter().map(|x| p_node(x)).collect(),
        },
        "B" => {
            let kt: Vec<&str> = f[1].split('.').collect();
            Op::LearnBytes {
                ks: p_u(kt[0]) as u32,
                tb: p_u(kt[1]) as u32,
                bytes: p_hexbytes(f[2]),
                known: p_list(f[3], ',').iter().map(|x| p_node(x)).collect(),
            }
        }
        "R" => Op::Refresh {
            kss: p_kss(f[1]),
            old: p_list(f[2], ',').iter().map(|x| p_node(x)).collect(),
            new: p_list(f[3], ',').iter().map(|x| p_node(x)).collect(),
        },
        _ => panic!("bad op {}", s),
    }
}

// ---------------------------------------------------------------- running a history on the real code

/// Node objects of one history: one Arc per distinct (host, gen, dc) triple, so that Arc::ptr_eq
/// in the code is equality of triples in the model. The generation is stored in the rack field.
struct Nodes {
    cache: HashMap<NodeD, Arc<Node>>,
}
impl Nodes {
    fn get(&mut self, d: &NodeD) -> Arc<Node> {
        self.cache
            .entry(d.clone())
            .or_insert_with(|| {
                Arc::new(node_without_pool(
                    Uuid::from_u128(d.host),
                    NodeAddr::Translatable(std::net::SocketAddr::from(([255, 255, 255, 255], 0))),
                    d.dc.map(|x| format!("dc{:x}", x)),
                    Some(format!("g{:x}", d.generation)),
                ))
            })
            .clone()
    }
    fn map(&mut self, l: &[NodeD]) -> HashMap<Uuid, Arc<Node>> {
        let mut m = HashMap::new();
        for d in l {
            // first entry wins, as in the model's association lists
            let n = self.get(d);
            m.entry(n.host_id).or_insert(n);
        }
        m
    }
}

/// The payload bytes ScyllaDB sends: tuple<bigint, bigint, list<tuple<uuid, int>>> without the outer length.
fn payload_bytes(a: i64, b: i64, raw: &[(u128, i32)]) -> Vec<u8> {
    let mut v = Vec::new();
    v.extend_from_slice(&8i32.to_be_bytes());
    v.extend_from_slice(&a.to_be_bytes());
    v.extend_from_slice(&8i32.to_be_bytes());
    v.extend_from_slice(&b.to_be_bytes());
    let mut l = Vec::new();
    l.extend_from_slice(&(raw.len() as i32).to_be_bytes());
    for (h, s) in raw {
        let mut e = Vec::new();
        e.extend_from_slice(&16i32.to_be_bytes());
        e.extend_from_slice(&h.to_be_bytes());
        e.extend_from_slice(&4i32.to_be_bytes());
        e.extend_from_slice(&s.to_be_bytes());
        l.extend_from_slice(&(e.len() as i32).to_be_bytes());
        l.extend_from_slice(&e);
    }
    v.extend_from_slice(&(l.len() as i32).to_be_bytes());
    v.extend_from_slice(&l);
    v
}

fn rep_s(r: &Replica) -> String {
    let n = &r.0;
    let g = n.rack.as_deref().and_then(|x| x.strip_prefix('g')).map(|x| x.to_string()).unwrap_or("?".into());
    let d = match n.datacenter.as_deref() {
        None => "n".to_string(),
        Some(x) => x.strip_prefix("dc").unwrap_or("?").to_string(),
    };
    format!("{}.{}.{}.{}", hex_u(n.host_id.as_u128()), g, d, hex_u(r.1 as u128))
}
fn reps_s(l: &[Replica]) -> String {
    join(l, ",", rep_s)
}
fn tablet_s(t: &TabletView) -> String {
    format!(
        "{}:{}:{}:{}",
        hex_i(t.first as i128),
        hex_i(t.last as i128),
        reps_s(&t.all),
        match &t.failed {
            None => "n".to_string(),
            Some(f) => join(f, ",", |(u, s)| format!("{}.{}", hex_u(u.as_u128()), hex_u(*s as u128))),
        }
    )
}

fn observe(v: &VerifTablets, res: &str, tables: &[(u32, u32)], tokens: &[i64], dcs: &[u32]) -> String {
    let mut s = String::new();
    write!(s, "{}~{}", res, v.info_has_unknown_replicas() as u8).unwrap();
    for (ks, tb) in tables {
        let (ksn, tbn) = (format!("ks{:x}", ks), format!("t{:x}", tb));
        match v.table_view(&ksn, &tbn) {
            None => s.push_str("~A"),
            Some((flag, list)) => {
                write!(s, "~{}[{}]", flag as u8, list.iter().map(tablet_s).collect::<Vec<_>>().join(";")).unwrap();
                // identical lookup answers within one table are printed once: "=<index of the first token with that answer>"
                let mut seen: Vec<String> = Vec::new();
                for tok in tokens {
                    let t = v.tablet_for_token(&ksn, &tbn, *tok).unwrap();
                    let all = v.replicas_for_token(&ksn, &tbn, *tok).unwrap();
                    let lk = match (t, all) {
                        (None, None) => "n".to_string(),
                        (Some(t), Some(all)) => {
                            let per: Vec<String> = dcs
                                .iter()
                                .map(|d| match v.dc_replicas_for_token(&ksn, &tbn, *tok, &format!("dc{:x}", d)).unwrap() {
                                    Some(l) => reps_s(&l),
                                    None => "?".into(),
                                })
                                .collect();
                            format!("{}:{}:{}:{}", hex_i(t.first as i128), hex_i(t.last as i128), reps_s(&all), per.join("/"))
                        }
                        _ => "inconsistent".to_string(),
                    };
                    match seen.iter().position(|x| *x == lk) {
                        Some(i) if lk != "n" => write!(s, "@={:x}", i).unwrap(),
                        _ => write!(s, "@{}", lk).unwrap(),
                    }
                    seen.push(lk);
                }
            }
        }
    }
    s
}

struct Hist {
    kind: &'static str,
    tables: Vec<(u32, u32)>,
    tokens: Vec<i64>,
    dcs: Vec<u32>,
    ops: Vec<Op>,
}
fn hist_s(h: &Hist) -> String {
    let mut s = format!(
        "{} {} {} {}",
        h.kind,
        join(&h.tables, ",", |(k, t)| format!("{}.{}", hex_u(*k as u128), hex_u(*t as u128))),
        join(&h.tokens, ",", |t| hex_i(*t as i128)),
        join(&h.dcs, ",", |d| hex_u(*d as u128))
    );
    for o in &h.ops {
        s.push(' ');
        s.push_str(&op_s(o));
    }
    s
}
fn p_hist(case: &str) -> Hist {
    let f: Vec<&str> = case.split_whitespace().collect();
    assert!(f[0].starts_with('H'));
    Hist {
        kind: "H",
        tables: p_list(f[1], ',')
            .iter()
            .map(|x| {
                let (k, t) = x.split_once('.').unwrap();
                (p_u(k) as u32, p_u(t) as u32)
            })
            .collect(),
        tokens: p_list(f[2], ',').iter().map(|x| p_i(x) as i64).collect(),
        dcs: p_list(f[3], ',').iter().map(|x| p_u(x) as u32).collect(),
        ops: f[4..].iter().map(|x| p_op(x)).collect(),
    }
}

/// Apply one op to the real code. Returns the result tag, or None when the call panicked.
fn apply(v: &mut VerifTablets, nodes: &mut Nodes, o: &Op) -> Option<String> {
    match o {
        Op::Learn { ks, tb, a, b, raw, known } => {
            let known = nodes.map(known);
            let payload: HashMap<String, Bytes> =
                HashMap::from([(PAYLOAD_KEY.to_string(), Bytes::from(payload_bytes(*a, *b, raw)))]);
            let (ksn, tbn) = (format!("ks{:x}", ks), format!("t{:x}", tb));
            // the REAL RawTablet::from_custom_payload, then the REAL ClusterState::update_tablets on a cluster
            // state whose known nodes are `known`
            let r = catch(std::panic::AssertUnwindSafe(|| {
                scylla::cluster::verif_update_tablets::update_tablets_from_payload(v, &known, &ksn, &tbn, &payload)
            }));
            match r {
                Err(_) => None,
                Ok(None) => Some("none".into()),
                Ok(Some(Ok(()))) => Some("a".into()),
                Ok(Some(Err(e))) => Some(format!("r{}", e)),
            }
        }
        Op::Maintain { kss, removed, current, recreated } => {
            let kss: Vec<KeyspaceDesc> = kss
                .iter()
                .map(|k| KeyspaceDesc {
                    name: format!("ks{:x}", k.ks),
                    tablet_based: k.tablet_based,
                    tables: k.tables.iter().map(|t| format!("t{:x}", t)).collect(),
                    views: k.views.iter().map(|t| format!("t{:x}", t)).collect(),
                })
                .collect();
            let removed: HashSet<Uuid> = removed.iter().map(|h| Uuid::from_u128(*h)).collect();
            let current = nodes.map(current);
            let recreated = nodes.map(recreated);
            let r = catch(std::panic::AssertUnwindSafe(|| v.perform_maintenance(&kss, &removed, &current, &recreated)));
            match r {
                Err(_) => None,
                Ok(()) => Some("m".into()),
            }
        }
        Op::LearnBytes { ks, tb, bytes, known } => {
            let known = nodes.map(known);
            let tag = decode_tag(bytes)?;
            let payload: HashMap<String, Bytes> = match bytes {
                None => HashMap::from([("some-other-key".to_string(), Bytes::from_static(&[1, 2, 3]))]),
                Some(b) => HashMap::from([(PAYLOAD_KEY.to_string(), Bytes::from(b.clone()))]),
            };
            let (ksn, tbn) = (format!("ks{:x}", ks), format!("t{:x}", tb));
            let r = catch(std::panic::AssertUnwindSafe(|| {
                scylla::cluster::verif_update_tablets::update_tablets_from_payload(v, &known, &ksn, &tbn, &payload)
            }));
            match r {
                Err(_) => None,
                Ok(_) => Some(tag),
            }
        }
        Op::Refresh { kss, old, new } => {
            let kss = ks_descs(kss);
            let old = nodes.map(old);
            let new = nodes.map(new);
            let r = catch(std::panic::AssertUnwindSafe(|| {
                scylla::cluster::verif_tablets_maintenance::perform_tablets_maintenance(v, &old, &new, &kss)
            }));
            match r {
                Err(_) => None,
                Ok(()) => Some("m".into()),
            }
        }
    }
}

/// Runs the history on a fresh TabletsInfo; one observation per step; stops after a panic.
fn run_hist(h: &Hist) -> (String, Vec<Vec<(i64, i64)>>) {
    let mut v = VerifTablets::new();
    let mut nodes = Nodes { cache: HashMap::new() };
    let mut obs = Vec::new();
    let mut ranges = Vec::new();
    for o in &h.ops {
        match apply(&mut v, &mut nodes, o) {
            None => {
                obs.push("panic".to_string());
                break;
            }
            Some(res) => {
                obs.push(observe(&v, &res, &h.tables, &h.tokens, &h.dcs));
                if let Some((ks, tb)) = h.tables.first() {
                    ranges.push(
                        v.table_view(&format!("ks{:x}", ks), &format!("t{:x}", tb))
                            .map(|(_, l)| l.iter().map(|t| (t.first, t.last)).collect())
                            .unwrap_or_default(),
                    );
                }
            }
        }
    }
    (if obs.is_empty() { "-".into() } else { obs.join(" ") }, ranges)
}

// ---------------------------------------------------------------- generators

/// the 8-point universe of the exhaustive part: payload bounds a < b are taken from it, so the
/// tablets are [a+1, b]: single-token tablets, touching tablets, tablets ending at i64::MAX and
/// starting at i64::MIN + 1 all occur.
const P8: [i64; 8] = [i64::MIN, i64::MIN + 1, -1, 0, 1, 5, i64::MAX - 1, i64::MAX];
const Q8: [i64; 16] = [
    i64::MIN, i64::MIN + 1, i64::MIN + 2, -2, -1, 0, 1, 2, 3, 5, 6, 7, i64::MAX - 2, i64::MAX - 1, i64::MAX, 4,
];

fn nd(host: u128, generation: u32, dc: Option<u32>) -> NodeD {
    NodeD { host, generation, dc }
}
fn schema_all() -> Vec<KsD> {
    vec![KsD { ks: 1, tablet_based: true, tables: vec![1, 2], views: vec![3] }]
}

/// Exhaustive part: breadth-first over EVERY range set reachable in the 8-point universe (keyed by
/// the implementation's own range list); from every reachable set every one of the 28 inserts is
/// tried, followed by a maintenance step removing node 1 and a re-insert. One line per
/// (reachable set, insert).
fn gen_exhaustive(out: &mut Out, thorough: bool) -> (usize, usize) {
    // thorough: a 10-point universe (two more interior points), 45 inserts, 4181 reachable sets
    let p10: [i64; 10] = [i64::MIN, i64::MIN + 1, -1, 0, 1, 5, 6, 100, i64::MAX - 1, i64::MAX];
    let pts: &[i64] = if thorough { &p10 } else { &P8 };
    let np = pts.len();
    let known = vec![nd(1, 0, Some(0)), nd(2, 0, Some(1))];
    let mut letters: Vec<Op> = Vec::new();
    for i in 0..np {
        for j in (i + 1)..np {
            letters.push(Op::Learn {
                ks: 1,
                tb: 1,
                a: pts[i],
                b: pts[j],
                raw: vec![(((i + j) % 2 + 1) as u128, ((i * 8 + j) % 5) as i32)],
                known: known.clone(),
            });
        }
    }
    let maint = Op::Maintain { kss: schema_all(), removed: vec![1], current: vec![nd(2, 0, Some(1))], recreated: vec![] };
    let mut seen: HashMap<Vec<(i64, i64)>, ()> = HashMap::new();
    let mut queue: VecDeque<Vec<Op>> = VecDeque::new();
    seen.insert(vec![], ());
    queue.push_back(vec![]);
    let mut lines = 0;
    while let Some(prefix) = queue.pop_front() {
        for l in &letters {
            let mut ops = prefix.clone();
            ops.push(l.clone());
            let n_pref = ops.len();
            ops.push(maint.clone());
            ops.push(l.clone());
            let mut tokens = Q8.to_vec();
            if thorough {
                tokens.extend_from_slice(&[99, 100, 101]);
            }
            let h = Hist { kind: "Hx", tables: vec![(1, 1)], tokens, dcs: vec![0, 1], ops };
            let (o, ranges) = run_hist(&h);
            out.case(&hist_s(&h), &o);
            lines += 1;
            // the state AFTER a maintenance call (tablets of node 1 dropped, flags reset) x every insert
            let mut ops_m = prefix.clone();
            ops_m.push(maint.clone());
            ops_m.push(l.clone());
            let mut tokens_m = Q8.to_vec();
            if thorough {
                tokens_m.extend_from_slice(&[99, 100, 101]);
            }
            let hm = Hist { kind: "Hm", tables: vec![(1, 1)], tokens: tokens_m, dcs: vec![0, 1], ops: ops_m };
            let (om, _) = run_hist(&hm);
            out.case(&hist_s(&hm), &om);
            lines += 1;
            if ranges.len() >= n_pref {
                let st = ranges[n_pref - 1].clone();
                if !seen.contains_key(&st) {
                    seen.insert(st, ());
                    queue.push_back(h.ops[..n_pref].to_vec());
                }
            }
        }
    }
    (seen.len(), lines)
}

/// Short exhaustive histories with invalid payloads and schema maintenance in the alphabet.
fn gen_exhaustive_short(out: &mut Out, len: usize) -> usize {
    let known = vec![nd(1, 0, Some(0)), nd(2, 0, Some(1))];
    let pts = [i64::MIN, -1, 0, i64::MAX - 1, i64::MAX];
    let mut letters: Vec<Op> = Vec::new();
    for i in 0..pts.len() {
        for j in 0..pts.len() {
            if i < j || (i == j && i % 2 == 0) || (i == j + 1 && j == 0) {
                letters.push(Op::Learn {
                    ks: 1,
                    tb: 1,
                    a: pts[i],
                    b: pts[j],
                    raw: vec![(((i + j) % 3 + 1) as u128, (j as i32) - if i == 1 && j == 4 { 9 } else { 0 })],
                    known: known.clone(),
                });
            }
        }
    }
    letters.push(Op::Maintain { kss: schema_all(), removed: vec![], current: vec![nd(1, 0, Some(0)), nd(2, 0, Some(1)), nd(3, 0, None)], recreated: vec![] });
    letters.push(Op::Maintain { kss: schema_all(), removed: vec![2], current: vec![nd(1, 0, Some(0))], recreated: vec![] });
    letters.push(Op::Maintain { kss: vec![], removed: vec![], current: known.clone(), recreated: vec![] });
    let k = letters.len();
    let mut idx = vec![0usize; len];
    let mut lines = 0;
    loop {
        let ops: Vec<Op> = idx.iter().map(|i| letters[*i].clone()).collect();
        let h = Hist { kind: "Ha", tables: vec![(1, 1)], tokens: vec![i64::MIN, i64::MIN + 1, -1, 0, 1, i64::MAX - 1, i64::MAX], dcs: vec![0, 1], ops };
        let (o, _) = run_hist(&h);
        out.case(&hist_s(&h), &o);
        lines += 1;
        let mut p = len;
        loop {
            if p == 0 {
                return lines;
            }
            p -= 1;
            idx[p] += 1;
            if idx[p] < k {
                break;
            }
            idx[p] = 0;
        }
    }
}

/// Several tables: all histories of the given length over an alphabet of payloads for two known tables and
/// one table the schema does not list, and maintenance calls whose schema keeps everything / drops table
/// (2,1) / turns keyspace 2 into a non-tablet keyspace / is empty / lists a table nobody has tablets for.
fn gen_tables_alphabet(out: &mut Out, len: usize) -> usize {
    let known = vec![nd(1, 0, Some(0)), nd(2, 0, Some(1))];
    let mut letters: Vec<Op> = Vec::new();
    for (ks, tb) in [(1u32, 1u32), (2, 1), (3, 7)] {
        for (a, b, h) in [(0i64, 10i64, 1u128), (5, 20, 2), (10, 30, 3)] {
            if (ks, tb) == (3, 7) && a != 0 {
                continue;
            }
            letters.push(Op::Learn { ks, tb, a, b, raw: vec![(h, 0)], known: known.clone() });
        }
    }
    let ks = |k: u32, tbased: bool, tables: Vec<u32>, views: Vec<u32>| KsD { ks: k, tablet_based: tbased, tables, views };
    let full = vec![ks(1, true, vec![1], vec![]), ks(2, true, vec![1, 2], vec![])];
    letters.push(Op::Maintain { kss: full.clone(), removed: vec![], current: known.clone(), recreated: vec![] });
    letters.push(Op::Maintain { kss: vec![ks(1, true, vec![1], vec![]), ks(2, true, vec![2], vec![])], removed: vec![], current: known.clone(), recreated: vec![] });
    letters.push(Op::Maintain { kss: vec![ks(1, true, vec![], vec![1]), ks(2, false, vec![1, 2], vec![])], removed: vec![], current: known.clone(), recreated: vec![] });
    letters.push(Op::Maintain { kss: vec![], removed: vec![], current: known.clone(), recreated: vec![] });
    letters.push(Op::Refresh { kss: full, old: known.clone(), new: vec![nd(1, 0, Some(0)), nd(3, 0, Some(1))] });
    let k = letters.len();
    let mut idx = vec![0usize; len];
    let mut lines = 0;
    loop {
        let ops: Vec<Op> = idx.iter().map(|i| letters[*i].clone()).collect();
        let h = Hist { kind: "Ht", tables: vec![(1, 1), (2, 1), (2, 2), (3, 7)], tokens: vec![0, 1, 6, 10, 11, 21, 30, 31], dcs: vec![0, 1], ops };
        let (o, _) = run_hist(&h);
        out.case(&hist_s(&h), &o);
        lines += 1;
        let mut p = len;
        loop {
            if p == 0 {
                return lines;
            }
            p -= 1;
            idx[p] += 1;
            if idx[p] < k {
                break;
            }
            idx[p] = 0;
        }
    }
}

/// The cluster as the harness imagines it while generating a random history.
struct World {
    known: Vec<NodeD>,       // ClusterState.known_nodes
    next_gen: u32,
    schema: Vec<KsD>,
}

fn gen_bound(r: &mut Rng, small: bool, used: &[i64]) -> i64 {
    if small {
        return *r.pick(&P8);
    }
    match r.below(10) {
        0 => *r.pick(&[i64::MIN, i64::MIN + 1, i64::MAX, i64::MAX - 1, 0, -1, 1]),
        1 | 2 | 3 if !used.is_empty() => {
            // at or next to a bound already used: touching / containing / one-off relations
            let u = *r.pick(used);
            u.saturating_add(r.range(0, 2) as i64 - 1)
        }
        4 | 5 => {
            // ScyllaDB style: ring split into 2^k equal tablets
            let k = r.range(1, 6);
            let i = r.below((1 << k) + 1) as i128;
            let v = (i << (64 - k)) - (1i128 << 63) - if r.chance(1, 3) { 1 } else { 0 };
            v.clamp(i64::MIN as i128, i64::MAX as i128) as i64
        }
        _ => r.i64(),
    }
}

fn gen_random_history(r: &mut Rng, kind: &'static str, len: usize, small: bool, dc_changes: bool) -> Hist {
    let hosts: Vec<u128> = (1..=6).collect();
    let dc_of = |h: u128| -> Option<u32> { if h == 6 { None } else { Some((h % 3) as u32) } };
    let mut w = World {
        known: hosts.iter().filter(|_| r.chance(3, 4)).map(|h| nd(*h, 0, dc_of(*h))).collect(),
        next_gen: 1,
        schema: vec![
            KsD { ks: 1, tablet_based: true, tables: vec![1, 2], views: vec![3] },
            KsD { ks: 2, tablet_based: r.chance(1, 2), tables: vec![1], views: vec![] },
        ],
    };
    let mut ops = Vec::new();
    let mut used: Vec<i64> = Vec::new();
    let maint_rate = *r.pick(&[3u64, 6, 12, 30]);
    for _ in 0..len {
        if r.below(100) < maint_rate {
            // topology / schema refresh: new known nodes; removed and recreated derived exactly as
            // ClusterState::perform_tablets_maintenance derives them (old vs new known nodes)
            let old = w.known.clone();
            let mut new: Vec<NodeD> = Vec::new();
            for h in &hosts {
                let was = old.iter().find(|n| n.host == *h);
                match was {
                    Some(n) => {
                        if r.chance(1, 6) {
                            continue; // node removed
                        }
                        if r.chance(1, 4) {
                            // Node object recreated (address / rack / datacenter change)
                            let dc = if dc_changes && r.chance(1, 3) { Some(r.below(3) as u32) } else { n.dc };
                            new.push(nd(*h, w.next_gen, dc));
                            w.next_gen += 1;
                        } else {
                            new.push(n.clone());
                        }
                    }
                    None => {
                        if r.chance(1, 2) {
                            new.push(nd(*h, w.next_gen, dc_of(*h)));
                            w.next_gen += 1;
                        }
                    }
                }
            }
            r.shuffle(&mut new);
            let mut removed: Vec<u128> = old.iter().filter(|o| !new.iter().any(|n| n.host == o.host)).map(|o| o.host).collect();
            let mut recreated: Vec<NodeD> = new
                .iter()
                .filter(|n| old.iter().any(|o| o.host == n.host && *o != **n))
                .cloned()
                .collect();
            let mut current = new.clone();
            // a small share of calls with arguments the real caller would not produce (the functions
            // are total in them): inconsistent current / extra removed / empty current
            let mut perturbed = true;
            match r.below(40) {
                0 => current = old.clone(),
                1 => removed.push(*r.pick(&hosts)),
                2 => current.clear(),
                3 => recreated.clear(),
                // overlapping arguments: a recreated host that is also removed; a removed host that is still current
                4 if !recreated.is_empty() => removed.push(r.pick(&recreated).host),
                5 if !current.is_empty() => removed.push(r.pick(&current).host),
                // duplicate keys in the map arguments (the first entry counts, here and in the model)
                6 if !current.is_empty() => {
                    let mut d = r.pick(&current).clone();
                    d.generation += 100;
                    current.push(d);
                }
                7 if !recreated.is_empty() => {
                    let mut d = r.pick(&recreated).clone();
                    d.generation += 200;
                    recreated.push(d);
                }
                _ => perturbed = false,
            }
            // schema changes
            if r.chance(1, 5) {
                let k = r.below(2) as usize;
                match r.below(4) {
                    0 => w.schema[k].tablet_based = !w.schema[k].tablet_based,
                    1 => {
                        let t = r.range(1, 3) as u32;
                        if let Some(p) = w.schema[k].tables.iter().position(|x| *x == t) {
                            w.schema[k].tables.remove(p);
                        } else {
                            w.schema[k].tables.push(t);
                        }
                    }
                    2 => {
                        let t = r.range(1, 3) as u32;
                        if let Some(p) = w.schema[k].views.iter().position(|x| *x == t) {
                            w.schema[k].views.remove(p);
                        } else {
                            w.schema[k].views.push(t);
                        }
                    }
                    _ => {}
                }
            }
            let kss: Vec<KsD> = if r.chance(1, 30) { vec![] } else if r.chance(1, 10) { vec![w.schema[0].clone()] } else { w.schema.clone() };
            if perturbed || r.chance(1, 4) {
                ops.push(Op::Maintain { kss, removed, current, recreated });
            } else {
                // the caller's own derivation (ClusterState::perform_tablets_maintenance)
                ops.push(Op::Refresh { kss, old: old.clone(), new: new.clone() });
            }
            w.known = new;
        } else {
            let (ks, tb) = if r.chance(5, 6) { (1, 1) } else { (*r.pick(&[1u32, 2]), r.range(1, 3) as u32) };
            let (mut a, mut b) = (gen_bound(r, small, &used), gen_bound(r, small, &used));
            if r.chance(14, 15) && a > b {
                std::mem::swap(&mut a, &mut b);
            }
            if !small && r.chance(1, 12) {
                b = a.saturating_add(r.range(0, 2) as i64); // empty / single-token / two-token
            }
            used.push(a);
            used.push(b);
            let nrep = *r.pick(&[0usize, 1, 1, 2, 2, 3, 3, 4]);
            let mut raw: Vec<(u128, i32)> = Vec::new();
            for _ in 0..nrep {
                // mostly known hosts, sometimes not yet known ones, rarely a host outside the pool
                let h = if r.chance(1, 25) { 9 } else { *r.pick(&hosts) };
                let s = if r.chance(1, 40) { -(r.range(1, 3) as i32) } else { r.below(8) as i32 };
                raw.push((h, s));
            }
            if r.chance(1, 5) {
                // the same payload as bytes, possibly corrupted
                let bytes = if r.chance(1, 100) { None } else { Some(gen_payload_bytes(r, a, b, &raw)) };
                ops.push(Op::LearnBytes { ks, tb, bytes, known: w.known.clone() });
            } else {
                ops.push(Op::Learn { ks, tb, a, b, raw, known: w.known.clone() });
            }
        }
    }
    // watched tokens: every bound that occurs and its neighbours (sampled), the extremes, random ones
    let mut toks: BTreeSet<i64> = BTreeSet::new();
    for t in [i64::MIN, i64::MIN + 1, i64::MAX, i64::MAX - 1, 0] {
        toks.insert(t);
    }
    if small {
        for t in Q8 {
            toks.insert(t);
        }
    } else {
        let want = 20;
        let mut guard = 0;
        while toks.len() < want && guard < 400 {
            guard += 1;
            if used.is_empty() || r.chance(1, 6) {
                toks.insert(r.i64());
            } else {
                let u = *r.pick(&used);
                toks.insert(u.saturating_add(r.range(0, 2) as i64 - 1));
            }
        }
    }
    let tables = if r.chance(1, 2) { vec![(1, 1)] } else { vec![(1, 1), (1, 3), (2, 1)] };
    Hist { kind, tables, tokens: toks.into_iter().collect(), dcs: vec![0, 1, 2], ops }
}

/// The value bytes produced by the crate's own CQL serialiser for the tuple (a, b, [(uuid, shard)]) against
/// tuple<bigint, bigint, list<tuple<uuid, int>>> (as the repository's unit tests build tablet payloads),
/// without the outer 4-byte length.
fn serializer_bytes(a: i64, b: i64, raw: &[(u128, i32)]) -> Result<Vec<u8>, String> {
    let typ = ColumnType::Tuple(vec![
        ColumnType::Native(NativeType::BigInt),
        ColumnType::Native(NativeType::BigInt),
        ColumnType::Collection {
            frozen: false,
            typ: CollectionType::List(Box::new(ColumnType::Tuple(vec![
                ColumnType::Native(NativeType::Uuid),
                ColumnType::Native(NativeType::Int),
            ]))),
        },
    ]);
    let value = CqlValue::Tuple(vec![
        Some(CqlValue::BigInt(a)),
        Some(CqlValue::BigInt(b)),
        Some(CqlValue::List(
            raw.iter()
                .map(|(h, s)| CqlValue::Tuple(vec![Some(CqlValue::Uuid(Uuid::from_u128(*h))), Some(CqlValue::Int(*s))]))
                .collect(),
        )),
    ]);
    let mut data = Vec::new();
    SerializeValue::serialize(&value, &typ, CellWriter::new(&mut data)).map_err(|e| format!("{:?}", e).replace(' ', "_"))?;
    Ok(data[4..].to_vec())
}
/// Pe case: "<a> <b> <host.shard,..>" -> "<bytes of the crate's serialiser> <bytes of the harness' payload_bytes> <decode tag>"
fn run_pe(a: i64, b: i64, raw: &[(u128, i32)]) -> String {
    let ser = match serializer_bytes(a, b, raw) {
        Ok(v) => hex_bytes(&v),
        Err(e) => format!("err:{}", e),
    };
    let own = payload_bytes(a, b, raw);
    let tag = decode_tag(&Some(own.clone())).unwrap_or("panic".into());
    format!("{} {} {}", ser, hex_bytes(&own), tag)
}
fn pe_case(a: i64, b: i64, raw: &[(u128, i32)]) -> String {
    format!("Pe {} {} {}", hex_i(a as i128), hex_i(b as i128), join(raw, ",", |(h, s)| format!("{}.{}", hex_u(*h), hex_i(*s as i128))))
}
fn p_pe(c: &str) -> (i64, i64, Vec<(u128, i32)>) {
    let f: Vec<&str> = c.split_whitespace().collect();
    (
        p_i(f[1]) as i64,
        p_i(f[2]) as i64,
        p_list(f[3], ',')
            .iter()
            .map(|x| {
                let (h, s) = x.split_once('.').unwrap();
                (p_u(h), p_i(s) as i32)
            })
            .collect(),
    )
}

/// Byte strings for the "tablets-routing-v1" value: the valid encoding of (a, b, raw) with up to two
/// corruptions (structured: wrong lengths / counts / nulls / missing fields; unstructured: truncation,
/// trailing bytes, flipped bytes, trash).
fn gen_payload_bytes(r: &mut Rng, a: i64, b: i64, raw: &[(u128, i32)]) -> Vec<u8> {
    let mut v: Vec<u8> = Vec::new();
    let mut int_pos: Vec<usize> = Vec::new(); // offsets of every 4-byte length / count field
    let put_int = |v: &mut Vec<u8>, x: i32, pos: &mut Vec<usize>| {
        pos.push(v.len());
        v.extend_from_slice(&x.to_be_bytes());
    };
    let nfields = if r.chance(1, 25) { r.below(3) as usize } else { 3 };
    if nfields >= 1 {
        put_int(&mut v, 8, &mut int_pos);
        v.extend_from_slice(&a.to_be_bytes());
    }
    if nfields >= 2 {
        put_int(&mut v, 8, &mut int_pos);
        v.extend_from_slice(&b.to_be_bytes());
    }
    if nfields >= 3 {
        let mut l: Vec<u8> = Vec::new();
        let mut lpos: Vec<usize> = Vec::new();
        let count = raw.len() as i32 + if r.chance(1, 30) { r.range(0, 2) as i32 - 1 } else { 0 };
        put_int(&mut l, count, &mut lpos);
        for (h, s) in raw {
            let mut e: Vec<u8> = Vec::new();
            let mut epos: Vec<usize> = Vec::new();
            let ub = h.to_be_bytes();
            let ulen = if r.chance(1, 60) { *r.pick(&[0usize, 8, 15]) } else { 16 };
            put_int(&mut e, ulen as i32, &mut epos);
            e.extend_from_slice(&ub[..ulen]);
            if !r.chance(1, 80) {
                let sb = s.to_be_bytes();
                let slen = if r.chance(1, 60) { *r.pick(&[0usize, 2, 3]) } else { 4 };
                put_int(&mut e, slen as i32, &mut epos);
                e.extend_from_slice(&sb[..slen]);
            }
            let base = l.len() + 4;
            put_int(&mut l, e.len() as i32, &mut lpos);
            lpos.extend(epos.iter().map(|p| base + p));
            l.extend_from_slice(&e);
        }
        let base = v.len() + 4;
        if r.chance(1, 60) {
            put_int(&mut v, -1, &mut int_pos); // null list
        } else {
            put_int(&mut v, l.len() as i32, &mut int_pos);
            int_pos.extend(lpos.iter().map(|p| base + p));
            v.extend_from_slice(&l);
        }
    }
    let nmut = *r.pick(&[0u32, 0, 0, 0, 1, 1, 1, 2]);
    for _ in 0..nmut {
        match r.below(6) {
            0 if !v.is_empty() => {
                let k = r.below(v.len() as u64) as usize;
                v.truncate(k);
                int_pos.retain(|p| p + 4 <= k);
            }
            1 => {
                let extra = r.range(1, 9) as usize;
                let bytes = r.bytes(extra);
                v.extend_from_slice(&bytes);
            }
            2 if !v.is_empty() => {
                let k = r.below(v.len() as u64) as usize;
                v[k] ^= 1 << r.below(8);
            }
            3 | 4 if !int_pos.is_empty() => {
                let p = *r.pick(&int_pos);
                let old = i32::from_be_bytes([v[p], v[p + 1], v[p + 2], v[p + 3]]);
                let new = match r.below(8) {
                    0 => -1,
                    1 => -2,
                    2 => 0,
                    3 => old.wrapping_add(1),
                    4 => old.wrapping_sub(1),
                    5 => i32::MAX,
                    6 => i32::MIN,
                    _ => r.below(40) as i32,
                };
                v[p..p + 4].copy_from_slice(&new.to_be_bytes());
            }
            _ => {
                if r.chance(1, 4) {
                    let n = r.below(24) as usize;
                    v = r.bytes(n);
                    int_pos.clear();
                }
            }
        }
    }
    v
}

fn gen_payload_case(r: &mut Rng) -> Option<Vec<u8>> {
    if r.chance(1, 200) {
        return None;
    }
    let small = r.chance(1, 3);
    let a = gen_bound(r, small, &[]);
    let mut b = gen_bound(r, small, &[a]);
    if r.chance(1, 2) && b <= a {
        b = a.saturating_add(r.range(0, 3) as i64);
    }
    let nrep = *r.pick(&[0usize, 1, 2, 3, 5]);
    let raw: Vec<(u128, i32)> = (0..nrep)
        .map(|_| {
            let h = match r.below(4) {
                0 => r.below(8) as u128,
                1 => u128::MAX - r.below(3) as u128,
                _ => ((r.u64() as u128) << 64) | r.u64() as u128,
            };
            let s = match r.below(12) {
                0 => -(r.range(1, 5) as i32),
                1 => i32::MAX,
                2 => i32::MIN,
                _ => r.below(64) as i32,
            };
            (h, s)
        })
        .collect();
    Some(gen_payload_bytes(r, a, b, &raw))
}

/// Histories built to hit the two known findings and their neighbourhood deterministically.
fn gen_scenarios(out: &mut Out) {
    let x = nd(1, 0, Some(0));
    let y = nd(2, 0, Some(0));
    let u = nd(3, 0, Some(1));
    let x2 = nd(1, 1, Some(0));
    let x2b = nd(1, 1, Some(1));
    let learn = |a: i64, b: i64, raw: Vec<(u128, i32)>, known: Vec<NodeD>| Op::Learn { ks: 1, tb: 1, a, b, raw, known };
    let scen: Vec<Vec<Op>> = vec![
        // unknown replica resolved in the refresh that also recreates another replica of the tablet
        vec![
            learn(0, 10, vec![(1, 0), (3, 1)], vec![x.clone(), y.clone()]),
            Op::Maintain { kss: schema_all(), removed: vec![], current: vec![x2.clone(), y.clone(), u.clone()], recreated: vec![x2.clone()] },
        ],
        // same, but the unknown replica stays unknown: the tablet is dropped before the swap
        vec![
            learn(0, 10, vec![(1, 0), (3, 1)], vec![x.clone(), y.clone()]),
            Op::Maintain { kss: schema_all(), removed: vec![], current: vec![x2.clone(), y.clone()], recreated: vec![x2.clone()] },
        ],
        // recreated node, no unknown replicas: plain swap
        vec![
            learn(0, 10, vec![(1, 0), (2, 1)], vec![x.clone(), y.clone()]),
            Op::Maintain { kss: schema_all(), removed: vec![], current: vec![x2.clone(), y.clone()], recreated: vec![x2.clone()] },
            learn(10, 20, vec![(1, 0)], vec![x2.clone(), y.clone()]),
        ],
        // recreated node whose datacenter changed
        vec![
            learn(0, 10, vec![(1, 0), (2, 1)], vec![x.clone(), y.clone()]),
            Op::Maintain { kss: schema_all(), removed: vec![], current: vec![x2b.clone(), y.clone()], recreated: vec![x2b.clone()] },
        ],
        // the first and the fourth scenario through the caller's own derivation of the arguments
        vec![
            learn(0, 10, vec![(1, 0), (3, 1)], vec![x.clone(), y.clone()]),
            Op::Refresh { kss: schema_all(), old: vec![x.clone(), y.clone()], new: vec![x2.clone(), y.clone(), u.clone()] },
        ],
        vec![
            learn(0, 10, vec![(1, 0), (2, 1)], vec![x.clone(), y.clone()]),
            Op::Refresh { kss: schema_all(), old: vec![x.clone(), y.clone()], new: vec![x2b.clone(), y.clone()] },
            Op::Refresh { kss: schema_all(), old: vec![x2b.clone(), y.clone()], new: vec![x2b.clone()] },
        ],
        // the repository's own "Case 9": inconsistent current (old object) with a recreated node
        vec![
            learn(0, 10, vec![(1, 0), (3, 1)], vec![x.clone(), y.clone()]),
            Op::Maintain { kss: schema_all(), removed: vec![2], current: vec![x.clone(), u.clone()], recreated: vec![x2.clone()] },
        ],
    ];
    for ops in scen {
        let h = Hist { kind: "Hs", tables: vec![(1, 1)], tokens: vec![0, 1, 5, 10, 11, 20, 21], dcs: vec![0, 1, 2], ops };
        let (o, _) = run_hist(&h);
        out.case(&hist_s(&h), &o);
    }
}

fn main() {
    let a = parse_args();
    quiet_panics();
    let mut out = Out::create(&a.out);
    if let Some(p) = &a.replay {
        for c in read_cases(p) {
            if c.starts_with("Pe ") {
                let (a, b, raw) = p_pe(&c);
                out.case(&c, &run_pe(a, b, &raw));
                continue;
            }
            if let Some(hx) = c.strip_prefix("Pb ") {
                let o = decode_tag(&p_hexbytes(hx.trim())).unwrap_or("panic".into());
                out.case(&c, &o);
                continue;
            }
            let h = p_hist(&c);
            let (o, _) = run_hist(&h);
            out.case(&c, &o);
        }
        out.finish();
        return;
    }
    let thorough = a.tier == "thorough";
    gen_scenarios(&mut out);
    let (states, lines) = gen_exhaustive(&mut out, thorough);
    eprintln!("c15: exhaustive part: {} reachable range sets, {} histories", states, lines);
    let short = gen_exhaustive_short(&mut out, if thorough { 4 } else { 3 });
    eprintln!("c15: short exhaustive histories: {}", short);
    let multi = gen_tables_alphabet(&mut out, if thorough { 5 } else { 4 });
    eprintln!("c15: several-tables histories: {}", multi);
    let mut r = Rng::new(a.seed);
    // Pb: RawTablet::from_custom_payload alone on generated / corrupted byte strings (8 per random history)
    for fixed in [Some(vec![]), Some(vec![1, 2, 3]), None] {
        let o = decode_tag(&fixed).unwrap_or("panic".into());
        out.case(&format!("Pb {}", match &fixed { None => "N".to_string(), Some(b) => hex_bytes(b) }), &o);
    }
    for _ in 0..a.n * 8 {
        let b = gen_payload_case(&mut r);
        let o = decode_tag(&b).unwrap_or("panic".into());
        out.case(&format!("Pb {}", match &b { None => "N".to_string(), Some(b) => hex_bytes(b) }), &o);
    }
    // Pe: the specification's encoder enc_payload against the crate's serialiser and the harness' encoder (2 per random history)
    for _ in 0..a.n * 2 {
        let small = r.chance(1, 3);
        let x = gen_bound(&mut r, small, &[]);
        let y = gen_bound(&mut r, small, &[x]);
        let nrep = *r.pick(&[0usize, 1, 2, 3, 5, 8]);
        let raw: Vec<(u128, i32)> = (0..nrep)
            .map(|_| {
                let h = match r.below(4) {
                    0 => r.below(8) as u128,
                    1 => u128::MAX - r.below(3) as u128,
                    _ => ((r.u64() as u128) << 64) | r.u64() as u128,
                };
                let s = match r.below(10) {
                    0 => -(r.range(1, 5) as i32),
                    1 => i32::MAX,
                    2 => i32::MIN,
                    _ => r.below(64) as i32,
                };
                (h, s)
            })
            .collect();
        out.case(&pe_case(x, y, &raw), &run_pe(x, y, &raw));
    }
    for i in 0..a.n {
        let h = match i % 4 {
            0 => { let len = r.range(8, 40) as usize; gen_random_history(&mut r, "Hr", len, true, false) }
            1 => { let len = r.range(10, 60) as usize; gen_random_history(&mut r, "Hi", len, false, false) }
            2 => { let len = r.range(40, 160) as usize; gen_random_history(&mut r, "Hl", len, false, false) }
            _ => { let len = r.range(8, 60) as usize; let small = r.bool(); gen_random_history(&mut r, "Hd", len, small, true) }
        };
        let (o, _) = run_hist(&h);
        out.case(&hist_s(&h), &o);
    }
    out.finish();
}
