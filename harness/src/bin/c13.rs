//! C13 runner: drives the REAL `speculative_execution::execute` (hook H5) with synthetic
//! executions under a paused Tokio clock and records, per call, the virtual times of the
//! runner invocations, the returned result and the virtual time of the return.
//!
//! Case kinds
//!   I <result>                         can_be_ignored(result)          -> 0 | 1
//!   X <max> <interval> <fibers>        one call of execute             -> distinct observations
//!       fibers = comma list of <dur>:<out>  (k-th entry = k-th runner invocation; invocations
//!                beyond the list yield None at once = shared plan exhausted), "-" = empty
//!       out    = S<tag> | N | E<error name>          (names as in coq/Model/Spec.v)
//!       observation = <start times, comma>/<result>/<end time>   (ticks = milliseconds, hex)
//!   P <idem> <metrics> <max:interval | -> <targets>   one call of run_request_no_side_effects over a
//!       plan of probe targets <id>:<delay> (each attempt lasts delay ticks, then fails with a pool
//!       error)    -> distinct observations  <b<id>@<t> / e<id>@<t> events, comma>/<result>/<end time>
//!   The call is repeated REPEAT times because futures::select! breaks ties pseudo-randomly;
//!   every distinct observation is printed and must be allowed by the model.
use scylla::errors::{
    BrokenConnectionError, BrokenConnectionErrorKind, ConnectionPoolError, CqlErrorParseError,
    CqlRequestSerializationError, CqlResponseKind, CqlResultParseError, DbError,
    FrameBodyExtensionsParseError, OperationType, RequestAttemptError, RequestError,
    SerializationError, WriteType,
};
use scylla::policies::speculative_execution::SimpleSpeculativeExecutionPolicy;
use scylla::client::verif_execution_speculative as xhooks;
use scylla::policies::verif_speculative as hooks;
use scylla::statement::Consistency;
use std::cell::RefCell;
use std::future::Future;
use std::pin::Pin;
use std::rc::Rc;
use std::sync::Arc;
use std::task::{Context, Poll};
use std::time::Duration;
use vh::*;

#[path = "../e2e_attempts.rs"]
mod e2e;

#[derive(Debug)]
struct Dummy;
impl std::fmt::Display for Dummy {
    fn fmt(&self, f: &mut std::fmt::Formatter<'_>) -> std::fmt::Result {
        write!(f, "dummy")
    }
}
impl std::error::Error for Dummy {}

const DB_NAMES: &[&str] = &[
    "SyntaxError", "Invalid", "AlreadyExists", "FunctionFailure", "AuthenticationError", "Unauthorized",
    "ConfigError", "Unavailable", "Overloaded", "IsBootstrapping", "TruncateError", "ReadTimeout",
    "WriteTimeout", "ReadFailure", "WriteFailure", "Unprepared", "ServerError", "ProtocolError",
    "RateLimitReached", "Other",
];
const ATTEMPT_NAMES: &[&str] = &[
    "SerializationError", "CqlRequestSerialization", "UnableToAllocStreamId", "BrokenConnectionError",
    "BodyExtensionsParseError", "CqlResultParseError", "CqlErrorParseError", "UnexpectedResponse",
    "RepreparedIdChanged", "RepreparedIdMissingInBatch", "NonfinishedPagingState",
];

fn db_error(name: &str) -> Option<DbError> {
    let c = Consistency::Quorum;
    Some(match name {
        "SyntaxError" => DbError::SyntaxError,
        "Invalid" => DbError::Invalid,
        "AlreadyExists" => DbError::AlreadyExists { keyspace: "k".into(), table: "t".into() },
        "FunctionFailure" => DbError::FunctionFailure { keyspace: "k".into(), function: "f".into(), arg_types: vec![] },
        "AuthenticationError" => DbError::AuthenticationError,
        "Unauthorized" => DbError::Unauthorized,
        "ConfigError" => DbError::ConfigError,
        "Unavailable" => DbError::Unavailable { consistency: c, required: 2, alive: 1 },
        "Overloaded" => DbError::Overloaded,
        "IsBootstrapping" => DbError::IsBootstrapping,
        "TruncateError" => DbError::TruncateError,
        "ReadTimeout" => DbError::ReadTimeout { consistency: c, received: 1, required: 2, data_present: false },
        "WriteTimeout" => DbError::WriteTimeout { consistency: c, received: 1, required: 2, write_type: WriteType::Simple },
        "ReadFailure" => DbError::ReadFailure { consistency: c, received: 1, required: 2, numfailures: 1, data_present: true },
        "WriteFailure" => DbError::WriteFailure { consistency: c, received: 1, required: 2, numfailures: 1, write_type: WriteType::Batch },
        "Unprepared" => DbError::Unprepared { statement_id: bytes::Bytes::from_static(b"id") },
        "ServerError" => DbError::ServerError,
        "ProtocolError" => DbError::ProtocolError,
        "RateLimitReached" => DbError::RateLimitReached { op_type: OperationType::Write, rejected_by_coordinator: true },
        "Other" => DbError::Other(0x4321),
        _ => return None,
    })
}

fn attempt_error(name: &str) -> Option<RequestAttemptError> {
    if let Some(d) = name.strip_prefix("DbError.") {
        return db_error(d).map(|e| RequestAttemptError::DbError(e, "reason".into()));
    }
    Some(match name {
        "SerializationError" => RequestAttemptError::SerializationError(SerializationError::new(Dummy)),
        "CqlRequestSerialization" => RequestAttemptError::CqlRequestSerialization(
            CqlRequestSerializationError::SnapCompressError(Arc::new(Dummy)),
        ),
        "UnableToAllocStreamId" => RequestAttemptError::UnableToAllocStreamId,
        "BrokenConnectionError" => RequestAttemptError::BrokenConnectionError(BrokenConnectionError::from(
            BrokenConnectionErrorKind::KeepaliveTimeout("127.0.0.1".parse().unwrap()),
        )),
        "BodyExtensionsParseError" => {
            RequestAttemptError::BodyExtensionsParseError(FrameBodyExtensionsParseError::NoCompressionNegotiated)
        }
        "CqlResultParseError" => RequestAttemptError::CqlResultParseError(CqlResultParseError::UnknownResultId(77)),
        "CqlErrorParseError" => RequestAttemptError::CqlErrorParseError(CqlErrorParseError::ErrorCodeParseError(
            scylla_cql::frame::frame_errors::LowLevelDeserializationError::InvalidValueLength(-7),
        )),
        "UnexpectedResponse" => RequestAttemptError::UnexpectedResponse(CqlResponseKind::Ready),
        "RepreparedIdChanged" => RequestAttemptError::RepreparedIdChanged {
            statement: "s".into(),
            expected_id: vec![1],
            reprepared_id: vec![2],
        },
        "RepreparedIdMissingInBatch" => RequestAttemptError::RepreparedIdMissingInBatch,
        "NonfinishedPagingState" => RequestAttemptError::NonfinishedPagingState,
        _ => return None,
    })
}

fn request_error(name: &str) -> Option<RequestError> {
    if let Some(a) = name.strip_prefix("LastAttemptError.") {
        return attempt_error(a).map(RequestError::LastAttemptError);
    }
    Some(match name {
        "EmptyPlan" => RequestError::EmptyPlan,
        "ConnectionPoolError" => RequestError::ConnectionPoolError(ConnectionPoolError::Initializing),
        "RequestTimeout" => RequestError::RequestTimeout(Duration::from_millis(5)),
        _ => return None,
    })
}

/// Name of the variant of an error that came back from the real code (independent of the
/// constructor table above: goes through the real enum's shape).
fn error_name(e: &RequestError) -> String {
    match e {
        RequestError::EmptyPlan => "EmptyPlan".into(),
        RequestError::ConnectionPoolError(_) => "ConnectionPoolError".into(),
        RequestError::RequestTimeout(_) => "RequestTimeout".into(),
        RequestError::LastAttemptError(a) => format!(
            "LastAttemptError.{}",
            match a {
                RequestAttemptError::SerializationError(_) => "SerializationError".to_string(),
                RequestAttemptError::CqlRequestSerialization(_) => "CqlRequestSerialization".into(),
                RequestAttemptError::UnableToAllocStreamId => "UnableToAllocStreamId".into(),
                RequestAttemptError::BrokenConnectionError(_) => "BrokenConnectionError".into(),
                RequestAttemptError::BodyExtensionsParseError(_) => "BodyExtensionsParseError".into(),
                RequestAttemptError::CqlResultParseError(_) => "CqlResultParseError".into(),
                RequestAttemptError::CqlErrorParseError(_) => "CqlErrorParseError".into(),
                RequestAttemptError::UnexpectedResponse(_) => "UnexpectedResponse".into(),
                RequestAttemptError::RepreparedIdChanged { .. } => "RepreparedIdChanged".into(),
                RequestAttemptError::RepreparedIdMissingInBatch => "RepreparedIdMissingInBatch".into(),
                RequestAttemptError::NonfinishedPagingState => "NonfinishedPagingState".into(),
                RequestAttemptError::DbError(d, _) => format!(
                    "DbError.{}",
                    match d {
                        DbError::SyntaxError => "SyntaxError",
                        DbError::Invalid => "Invalid",
                        DbError::AlreadyExists { .. } => "AlreadyExists",
                        DbError::FunctionFailure { .. } => "FunctionFailure",
                        DbError::AuthenticationError => "AuthenticationError",
                        DbError::Unauthorized => "Unauthorized",
                        DbError::ConfigError => "ConfigError",
                        DbError::Unavailable { .. } => "Unavailable",
                        DbError::Overloaded => "Overloaded",
                        DbError::IsBootstrapping => "IsBootstrapping",
                        DbError::TruncateError => "TruncateError",
                        DbError::ReadTimeout { .. } => "ReadTimeout",
                        DbError::WriteTimeout { .. } => "WriteTimeout",
                        DbError::ReadFailure { .. } => "ReadFailure",
                        DbError::WriteFailure { .. } => "WriteFailure",
                        DbError::Unprepared { .. } => "Unprepared",
                        DbError::ServerError => "ServerError",
                        DbError::ProtocolError => "ProtocolError",
                        DbError::RateLimitReached { .. } => "RateLimitReached",
                        DbError::Other(_) => "Other",
                        _ => "UNKNOWN-DB-VARIANT",
                    }
                ),
                _ => "UNKNOWN-ATTEMPT-VARIANT".into(),
            }
        ),
        _ => "UNKNOWN-REQUEST-VARIANT".into(),
    }
}

type FiberOut = Option<Result<u64, RequestError>>;

fn parse_out(s: &str) -> Option<FiberOut> {
    if s == "N" {
        Some(None)
    } else if let Some(t) = s.strip_prefix('S') {
        u64::from_str_radix(t, 16).ok().map(|v| Some(Ok(v)))
    } else if let Some(e) = s.strip_prefix('E') {
        request_error(e).map(|e| Some(Err(e)))
    } else {
        None
    }
}

/// Aborts a future that is polled absurdly often (a busy loop instead of a wait).
struct PollLimit<F> {
    inner: Pin<Box<F>>,
    polls: u32,
}
impl<F: Future> Future for PollLimit<F> {
    type Output = Option<F::Output>;
    fn poll(mut self: Pin<&mut Self>, cx: &mut Context<'_>) -> Poll<Self::Output> {
        self.polls += 1;
        if self.polls > 100_000 {
            return Poll::Ready(None);
        }
        self.inner.as_mut().poll(cx).map(Some)
    }
}

fn fmt_time(d: Duration) -> String {
    let us = d.as_micros();
    if us % 1000 == 0 { hex_u(us / 1000) } else { format!("us{}", us) }
}

/// One call of the real `execute` under a fresh paused-clock runtime.
fn run_once(max: usize, interval: u64, fibers: &[(u64, FiberOut)]) -> String {
    let rt = tokio::runtime::Builder::new_current_thread().enable_time().start_paused(true).build().unwrap();
    let fibers: Vec<(u64, FiberOut)> = fibers.to_vec();
    let r = catch(std::panic::AssertUnwindSafe(move || {
        rt.block_on(async move {
            let policy = SimpleSpeculativeExecutionPolicy {
                max_retry_count: max,
                retry_interval: Duration::from_millis(interval),
            };
            let ctx = hooks::context();
            let t0 = tokio::time::Instant::now();
            let starts: Rc<RefCell<Vec<String>>> = Rc::new(RefCell::new(vec![]));
            let generator = {
                let starts = starts.clone();
                move |is_speculative: bool| {
                    let k = starts.borrow().len();
                    let mut s = fmt_time(tokio::time::Instant::now() - t0);
                    if is_speculative != (k > 0) {
                        s.push_str("!flag");
                    }
                    starts.borrow_mut().push(s);
                    let (d, out) = fibers.get(k).cloned().unwrap_or((0, None));
                    async move {
                        if d > 0 {
                            tokio::time::sleep(Duration::from_millis(d)).await;
                        }
                        out
                    }
                }
            };
            let call = PollLimit { inner: Box::pin(hooks::execute::<_, u64>(&policy, &ctx, generator)), polls: 0 };
            let res = tokio::time::timeout(Duration::from_secs(100_000), call).await;
            let end = fmt_time(tokio::time::Instant::now() - t0);
            let st = starts.borrow().join(",");
            match res {
                Err(_) => format!("{}/hang/{}", st, end),
                Ok(None) => format!("{}/spin/{}", st, end),
                Ok(Some(Ok(v))) => format!("{}/S{}/{}", st, hex_u(v as u128), end),
                Ok(Some(Err(e))) => format!("{}/E{}/{}", st, error_name(&e), end),
            }
        })
    }));
    r.unwrap_or_else(|_| "panic".into())
}

/// One call of the real `run_request_no_side_effects` over a plan of probe targets (no node behind
/// them: every attempt waits `delay` ticks and fails with a pool error), paused clock.
/// Observation: the begin/end events of the attempts in the order they happened, with times.
fn run_probe_once(idem: bool, metrics: bool, policy: Option<(usize, u64)>, targets: &[(u32, u64)]) -> String {
    let rt = tokio::runtime::Builder::new_current_thread().enable_time().start_paused(true).build().unwrap();
    let targets: Vec<(u32, u64)> = targets.to_vec();
    let r = catch(std::panic::AssertUnwindSafe(move || {
        rt.block_on(async move {
            let t0 = tokio::time::Instant::now();
            let log: Arc<std::sync::Mutex<Vec<String>>> = Arc::new(std::sync::Mutex::new(vec![]));
            let on_event: Arc<dyn Fn(u32, bool) + Send + Sync> = {
                let log = log.clone();
                Arc::new(move |id: u32, begin: bool| {
                    let t = fmt_time(tokio::time::Instant::now() - t0);
                    log.lock().unwrap().push(format!("{}{}@{}", if begin { "b" } else { "e" }, hex_u(id as u128), t));
                })
            };
            let plan: Vec<xhooks::ProbeTarget> = targets
                .iter()
                .map(|&(id, d)| xhooks::ProbeTarget { id, delay: Duration::from_millis(d), on_event: on_event.clone() })
                .collect();
            let pol = policy.map(|(max, iv)| SimpleSpeculativeExecutionPolicy {
                max_retry_count: max,
                retry_interval: Duration::from_millis(iv),
            });
            let pol_ref: Option<&dyn scylla::policies::speculative_execution::SpeculativeExecutionPolicy> =
                pol.as_ref().map(|p| p as _);
            let call = PollLimit { inner: Box::pin(xhooks::run_probe_plan(idem, metrics, pol_ref, plan)), polls: 0 };
            let res = tokio::time::timeout(Duration::from_secs(100_000), call).await;
            let end = fmt_time(tokio::time::Instant::now() - t0);
            let ev = log.lock().unwrap().join(",");
            let ev = if ev.is_empty() { "-".to_string() } else { ev };
            match res {
                Err(_) => format!("{}/hang/{}", ev, end),
                Ok(None) => format!("{}/spin/{}", ev, end),
                Ok(Some(Ok(()))) => format!("{}/S0/{}", ev, end),
                Ok(Some(Err(e))) => format!("{}/E{}/{}", ev, error_name(&e), end),
            }
        })
    }));
    r.unwrap_or_else(|_| "panic".into())
}

fn run_case(case: &str, repeat: usize) -> String {
    let f: Vec<&str> = case.split_whitespace().collect();
    match f.first().copied() {
        Some("I") if f.len() == 2 => {
            let r: Result<u64, RequestError> = if let Some(t) = f[1].strip_prefix('S') {
                Ok(u64::from_str_radix(t, 16).unwrap_or(0))
            } else if let Some(e) = f[1].strip_prefix('E').and_then(request_error) {
                Err(e)
            } else {
                return "error bad-result".into();
            };
            // the constructor table must produce the variant it is asked for
            if let Err(e) = &r {
                if format!("E{}", error_name(e)) != f[1] {
                    return "error constructor-table".into();
                }
            }
            if hooks::can_be_ignored(&r) { "1".into() } else { "0".into() }
        }
        Some("X") if f.len() == 4 => {
            let max = usize::from_str_radix(f[1], 16).unwrap();
            let interval = u64::from_str_radix(f[2], 16).unwrap();
            let mut fibers = vec![];
            if f[3] != "-" {
                for e in f[3].split(',') {
                    let (d, o) = match e.split_once(':') {
                        Some(x) => x,
                        None => return "error bad-fiber".into(),
                    };
                    let out = match parse_out(o) {
                        Some(x) => x,
                        None => return "error bad-outcome".into(),
                    };
                    fibers.push((u64::from_str_radix(d, 16).unwrap(), out));
                }
            }
            let mut seen: Vec<String> = vec![];
            for _ in 0..repeat {
                let o = run_once(max, interval, &fibers);
                if !seen.contains(&o) {
                    seen.push(o);
                }
            }
            // how the REAL can_be_ignored classifies each listed outcome ('-' for None): the driver
            // judges the observations with the model's table only where the two agree
            let bits: String = fibers
                .iter()
                .map(|(_, o)| match o {
                    None => '-',
                    Some(Ok(v)) => if hooks::can_be_ignored::<u64>(&Ok(*v)) { '1' } else { '0' },
                    Some(Err(e)) => {
                        let r: Result<u64, RequestError> = Err(e.clone());
                        if hooks::can_be_ignored(&r) { '1' } else { '0' }
                    }
                })
                .collect();
            seen.push(format!("c={}", if bits.is_empty() { "-".to_string() } else { bits }));
            seen.join(" ")
        }
        Some("P") if f.len() == 5 => {
            let idem = f[1] == "1";
            let metrics = f[2] == "1";
            let policy = if f[3] == "-" {
                None
            } else {
                let (m, i) = f[3].split_once(':').unwrap();
                Some((usize::from_str_radix(m, 16).unwrap(), u64::from_str_radix(i, 16).unwrap()))
            };
            let mut targets = vec![];
            if f[4] != "-" {
                for e in f[4].split(',') {
                    let (id, d) = e.split_once(':').unwrap();
                    targets.push((u32::from_str_radix(id, 16).unwrap(), u64::from_str_radix(d, 16).unwrap()));
                }
            }
            let mut seen: Vec<String> = vec![];
            for _ in 0..repeat {
                let o = run_probe_once(idem, metrics, policy, &targets);
                if !seen.contains(&o) {
                    seen.push(o);
                }
            }
            seen.join(" ")
        }
        _ => "error unknown-case".into(),
    }
}

// ------------------------------------------------------------------ generators

const IGNORABLE: &[&str] = &[
    "ConnectionPoolError",
    "LastAttemptError.BrokenConnectionError",
    "LastAttemptError.UnableToAllocStreamId",
    "LastAttemptError.DbError.Unavailable",
    "LastAttemptError.DbError.Overloaded",
    "LastAttemptError.DbError.IsBootstrapping",
    "LastAttemptError.DbError.ReadTimeout",
    "LastAttemptError.DbError.WriteTimeout",
    "LastAttemptError.DbError.ReadFailure",
    "LastAttemptError.DbError.WriteFailure",
    "LastAttemptError.DbError.Unprepared",
    "LastAttemptError.DbError.ServerError",
    "LastAttemptError.DbError.RateLimitReached",
];

fn all_error_names() -> Vec<String> {
    let mut v: Vec<String> = vec!["EmptyPlan".into(), "ConnectionPoolError".into(), "RequestTimeout".into()];
    for a in ATTEMPT_NAMES {
        v.push(format!("LastAttemptError.{}", a));
    }
    for d in DB_NAMES {
        v.push(format!("LastAttemptError.DbError.{}", d));
    }
    v
}

fn gen_out(r: &mut Rng, k: usize, errs: &[String]) -> String {
    match r.below(100) {
        0..=44 => format!("E{}", r.pick(IGNORABLE)),
        45..=59 => format!("S{}", hex_u(k as u128 + 1)),
        60..=74 => {
            // a definitive error: any variant that is not in the ignorable list
            loop {
                let e = r.pick(errs);
                if !IGNORABLE.contains(&e.as_str()) {
                    break format!("E{}", e);
                }
            }
        }
        75..=79 => format!("E{}", r.pick(errs)),
        _ => "N".into(),
    }
}

fn gen_case(r: &mut Rng, errs: &[String], thorough: bool) -> String {
    let max = r.below(5) as usize;
    let interval = if thorough && r.chance(1, 12) { r.range(6, 20) } else { *r.pick(&[0u64, 1, 1, 1, 2, 2, 2, 3, 5]) };
    let nf = match r.below(10) {
        0 => r.below(3) as usize,
        1..=3 => r.below(6) as usize,
        _ => (max + 1).min(5),
    };
    let style = r.below(4);
    let mut fs = vec![];
    for k in 0..nf {
        let d = match style {
            // multiples of the interval: completions coincide with timer ticks
            0 => interval * r.below(5),
            // all executions end at the same instant T: start k is at k*interval
            1 => (interval * 4).saturating_sub(interval * k as u64) + if r.chance(1, 5) { 1 } else { 0 },
            2 => r.below(4),
            _ => match r.below(6) {
                0 => 0,
                1 => interval * r.below(4),
                _ => r.below(13),
            },
        };
        fs.push(format!("{}:{}", hex_u(d as u128), gen_out(r, k, errs)));
    }
    let fl = if fs.is_empty() { "-".to_string() } else { fs.join(",") };
    format!("X {} {} {}", hex_u(max as u128), hex_u(interval as u128), fl)
}

fn gen_probe_case(r: &mut Rng) -> String {
    let idem = !r.chance(2, 5);
    let metrics = !r.chance(1, 7);
    let interval = *r.pick(&[0u64, 1, 1, 2, 2, 3, 5]);
    let policy = if r.chance(1, 7) { "-".to_string() } else { format!("{}:{}", hex_u(r.below(5) as u128), hex_u(interval as u128)) };
    let n = match r.below(8) { 0 => 0, 1 => 1, _ => r.range(2, 8) } as usize;
    let mut ids: Vec<u32> = (1..=n as u32).collect();
    if r.bool() {
        r.shuffle(&mut ids);
    }
    let style = r.below(4);
    let iv = interval.max(1);
    let tg: Vec<String> = ids
        .iter()
        .map(|id| {
            let d = match style {
                0 => iv * r.below(4),
                1 => r.below(3),
                2 => iv,
                _ => match r.below(5) { 0 => 0, 1 => iv * r.below(3), _ => r.below(9) },
            };
            format!("{}:{}", hex_u(*id as u128), hex_u(d as u128))
        })
        .collect();
    format!(
        "P {} {} {} {}",
        idem as u8,
        metrics as u8,
        policy,
        if tg.is_empty() { "-".to_string() } else { tg.join(",") }
    )
}

fn main() {
    let a = parse_args();
    quiet_panics();
    let mut out = Out::create(&a.out);
    let thorough = a.tier == "thorough";
    if let Some(p) = &a.replay {
        for c in read_cases(p) {
            if e2e::is_e2e_case(&c) {
                e2e::replay_case(&c, &mut out);
                continue;
            }
            let o = run_case(&c, 48);
            out.case(&c, &o);
        }
        out.finish();
        return;
    }
    // E13: end-to-end scenarios (real Session against the mock cluster), see e2e_attempts.rs
    let e2e_n: u64 = std::env::var("E2E_N").ok().and_then(|s| s.parse().ok()).unwrap_or(if !thorough {
        260
    } else if a.n >= 2_000_000 {
        2500
    } else {
        600 // the orchestrator's search rounds
    });
    e2e::run(e2e::Mix::C13, a.seed, e2e_n, &a.tier, &mut out);
    if std::env::var("E2E_ONLY").is_ok() {
        out.finish();
        return;
    }
    let repeat = if thorough { 4 } else { 3 };
    let errs = all_error_names();
    // the complete can_be_ignored table
    for c in std::iter::once("I S1".to_string()).chain(errs.iter().map(|e| format!("I E{}", e))) {
        let o = run_case(&c, 1);
        out.case(&c, &o);
    }
    // exhaustive small part: every (duration, outcome class) assignment to 1 + max executions
    let reps = ["ELastAttemptError.UnableToAllocStreamId", "S", "ELastAttemptError.DbError.Invalid", "N"];
    let grids: &[(usize, &[u64], &[u64])] = if thorough {
        &[(0, &[1, 2], &[0, 1, 2, 3]), (1, &[1, 2, 3], &[0, 1, 2, 3, 4]), (2, &[1, 2], &[0, 1, 2, 3, 4]), (3, &[1], &[0, 1, 2, 3]), (4, &[1], &[0, 2])]
    } else {
        &[(0, &[1, 2], &[0, 1, 2, 3]), (1, &[1, 2], &[0, 1, 2, 3]), (2, &[1, 2], &[0, 1, 2, 4]), (3, &[1], &[0, 2]), (4, &[1], &[1])]
    };
    for (max, intervals, durs) in grids {
        let n = max + 1;
        let per = durs.len() * reps.len();
        let total = per.pow(n as u32);
        for &iv in *intervals {
            for code in 0..total {
                let mut c = code;
                let mut fs = vec![];
                for k in 0..n {
                    let x = c % per;
                    c /= per;
                    let d = durs[x / reps.len()];
                    let o = reps[x % reps.len()];
                    let o = if o == "S" { format!("S{}", hex_u(k as u128 + 1)) } else { o.to_string() };
                    fs.push(format!("{}:{}", hex_u(d as u128), o));
                }
                let case = format!("X {} {} {}", hex_u(*max as u128), hex_u(iv as u128), fs.join(","));
                let o = run_case(&case, repeat);
                out.case(&case, &o);
            }
        }
    }
    // probe plans, exhaustive small part: every gate configuration x every plan of <= 3 targets
    // with delays in {0,1,2}
    let mut policies: Vec<String> = vec!["-".into()];
    for max in 0..=2u32 {
        for iv in [1u32, 2] {
            policies.push(format!("{:x}:{:x}", max, iv));
        }
    }
    let pmax = if thorough { 4 } else { 3 };
    for n in 0..=pmax {
        for code in 0..3usize.pow(n as u32) {
            let mut c = code;
            let mut tg = vec![];
            for k in 0..n {
                tg.push(format!("{:x}:{:x}", k + 1, c % 3));
                c /= 3;
            }
            let tg = if tg.is_empty() { "-".to_string() } else { tg.join(",") };
            for idem in [0, 1] {
                for metrics in [0, 1] {
                    for pol in &policies {
                        let case = format!("P {} {} {} {}", idem, metrics, pol, tg);
                        let o = run_case(&case, repeat);
                        out.case(&case, &o);
                    }
                }
            }
        }
    }
    let mut r = Rng::new(a.seed);
    for _ in 0..a.n {
        let case = if r.chance(1, 4) { gen_probe_case(&mut r) } else { gen_case(&mut r, &errs, thorough) };
        let o = run_case(&case, repeat);
        out.case(&case, &o);
    }
    out.finish();
}
