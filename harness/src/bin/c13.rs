//! C13 runner: drives the REAL `speculative_execution::execute` (hook H5) with synthetic
//! executions under a paused Tokio clock and records, per call, the virtual times of the
//! runner invocations, the returned result and the virtual time of the return.
//!
//! Case kinds
//!   I <result>                         can_be_ignored(result)          -> 0 | 1
//!   X <max> <interval> <fibers>        one call of execute             -> distinct observations
//!       fibers = comma list of <dur>:<out>  (k-th entry = k-th runner invocation; invocations
//!                beyond the list yield None at once = shared plan exhausted), "-" = empty
//!       out    = S<tag> | N | E<error name>          (names as in coq/Model/Spec.v)
//!       observation = <start times, comma>/<result>/<end time>   (ticks = milliseconds, hex)
//!   P <idem> <metrics> <max:interval | -> <targets>   one call of run_request_no_side_effects over a
//!       plan of probe targets <id>:<delay> (each attempt lasts delay ticks, then fails with a pool
//!       error)    -> distinct observations  <b<id>@<t> / e<id>@<t> events, comma>/<result>/<end time>
//!   The call is repeated REPEAT times because futures::select! breaks ties pseudo-randomly;
//!   every distinct observation is printed and must be allowed by the model.
use scylla::errors::{
    BrokenConnectionError, BrokenConnectionErrorKind, ConnectionPoolError, CqlErrorParseError,
    ConnectionError, CqlRequestSerializationError, CqlResponseKind, CqlResultParseError, DbError,
    FrameBodyExtensionsParseError, OperationType, RequestAttemptError, RequestError,
    SerializationError, WriteType,
};
use scylla::policies::speculative_execution::SimpleSpeculativeExecutionPolicy;
use scylla::client::verif_execution_speculative as xhooks;
use scylla::policies::verif_speculative as hooks;
use scylla::statement::Consistency;
use std::cell::RefCell;
use std::future::Future;
use std::pin::Pin;
use std::rc::Rc;
use std::sync::Arc;
use std::task::{Context, Poll};
use std::time::Duration;
use vh::*;

#[path = "../e2e_attempts.rs"]
mod e2e;

#[derive(Debug)]
struct Dummy;
impl std::fmt::Display for Dummy {
    fn fmt(&self, f: &mut std::fmt::Formatter<'_>) -> std::fmt::Result {
        write!(f, "dummy")
    }
}
impl std::error::Error for Dummy {}

const DB_NAMES: &[&str] = &[
    "SyntaxError", "Invalid", "AlreadyExists", "FunctionFailure", "AuthenticationError", "Unauthorized",
    "ConfigError", "Unavailable", "Overloaded", "IsBootstrapping", "TruncateError", "ReadTimeout",
    "WriteTimeout", "ReadFailure", "WriteFailure", "Unprepared", "ServerError", "ProtocolError",
    "RateLimitReached", "Other",
];
const ATTEMPT_NAMES: &[&str] = &[
    "SerializationError", "CqlRequestSerialization", "UnableToAllocStreamId", "BrokenConnectionError",
    "BodyExtensionsParseError", "CqlResultParseError", "CqlErrorParseError", "UnexpectedResponse",
    "RepreparedIdChanged", "RepreparedIdMissingInBatch", "NonfinishedPagingState",
];

// ---- field variants (wave-4 follow-up) -------------------------------------------------------
// An error name may carry a suffix `~<f1>;<f2>;...` that fixes the fields of the constructed value
// (without suffix: the historical fixed fields).  The model's tables are field-independent (so is the
// code's classification); the driver drops the suffix.  Replaying a case line rebuilds the same value.
//   RateLimitReached~op<R|W|O<hex u8>>;rbc<0|1>
//   Unavailable~<Cl>;<required>;<alive>
//   ReadTimeout~<Cl>;<received>;<required>;<data_present 0|1>
//   WriteTimeout~<Cl>;<received>;<required>;<WriteType>
//   ReadFailure~<Cl>;<received>;<required>;<numfailures>;<data_present>
//   WriteFailure~<Cl>;<received>;<required>;<numfailures>;<WriteType>
//   AlreadyExists~<keyspace>;<table>          ("_" = empty string)
//   FunctionFailure~<keyspace>;<function>;<number of arg types>
//   Unprepared~<id bytes hex | ->      Other~<code, signed hex>
//   BrokenConnectionError~<kind>       ConnectionPoolError~<variant>      RequestTimeout~<ms hex>
//   UnexpectedResponse~<kind>          CqlResultParseError~<id hex>       RepreparedIdChanged~<len>
//   any DbError: an optional last field `m<text>` sets the server's message ("m_" = empty)
const CLS: &[(&str, Consistency)] = &[
    ("Any", Consistency::Any), ("One", Consistency::One), ("Two", Consistency::Two), ("Three", Consistency::Three),
    ("Quorum", Consistency::Quorum), ("All", Consistency::All), ("LocalQuorum", Consistency::LocalQuorum),
    ("EachQuorum", Consistency::EachQuorum), ("LocalOne", Consistency::LocalOne), ("Serial", Consistency::Serial),
    ("LocalSerial", Consistency::LocalSerial),
];
const WTS: &[&str] = &["Simple", "Batch", "UnloggedBatch", "Counter", "BatchLog", "Cas", "View", "Cdc", "Other"];
const BROKEN_KINDS: &[&str] =
    &["KeepaliveTimeout", "KeepaliveRequestError", "UnexpectedStreamId", "WriteError", "TooManyOrphanedStreamIds", "ChannelError"];
const POOL_KINDS: &[&str] = &["Initializing", "NodeDisabledByHostFilter", "Broken.ConnectTimeout", "Broken.IoError", "Broken.NoSourcePortForShard", "Broken.BrokenConnection"];
const RESPONSE_KINDS: &[&str] = &["Error", "Ready", "Result", "Authenticate", "AuthSuccess", "AuthChallenge", "Supported", "Event"];

fn cl_of(s: &str) -> Option<Consistency> {
    CLS.iter().find(|c| c.0 == s).map(|c| c.1)
}
fn cl_name(c: Consistency) -> &'static str {
    CLS.iter().find(|x| x.1 == c).map(|x| x.0).unwrap_or("?")
}
fn wt_of(s: &str) -> Option<WriteType> {
    Some(match s {
        "Simple" => WriteType::Simple,
        "Batch" => WriteType::Batch,
        "UnloggedBatch" => WriteType::UnloggedBatch,
        "Counter" => WriteType::Counter,
        "BatchLog" => WriteType::BatchLog,
        "Cas" => WriteType::Cas,
        "View" => WriteType::View,
        "Cdc" => WriteType::Cdc,
        "Other" => WriteType::Other("VERIF_ODD".into()),
        _ => return None,
    })
}
fn wt_name(w: &WriteType) -> &'static str {
    match w {
        WriteType::Simple => "Simple",
        WriteType::Batch => "Batch",
        WriteType::UnloggedBatch => "UnloggedBatch",
        WriteType::Counter => "Counter",
        WriteType::BatchLog => "BatchLog",
        WriteType::Cas => "Cas",
        WriteType::View => "View",
        WriteType::Cdc => "Cdc",
        _ => "Other",
    }
}
fn num(s: &str) -> Option<i32> {
    let (neg, r) = match s.strip_prefix('-') { Some(r) => (true, r), None => (false, s) };
    let v = i64::from_str_radix(r, 16).ok()?;
    i32::try_from(if neg { -v } else { v }).ok()
}
fn text(s: &str) -> String {
    if s == "_" { String::new() } else { s.to_string() }
}
fn untext(s: &str) -> String {
    if s.is_empty() { "_".into() } else { s.to_string() }
}
fn split_variant(name: &str) -> (&str, Option<&str>) {
    match name.split_once('~') { Some((a, b)) => (a, Some(b)), None => (name, None) }
}

fn db_error_default(name: &str) -> Option<DbError> {
    let c = Consistency::Quorum;
    Some(match name {
        "SyntaxError" => DbError::SyntaxError,
        "Invalid" => DbError::Invalid,
        "AlreadyExists" => DbError::AlreadyExists { keyspace: "k".into(), table: "t".into() },
        "FunctionFailure" => DbError::FunctionFailure { keyspace: "k".into(), function: "f".into(), arg_types: vec![] },
        "AuthenticationError" => DbError::AuthenticationError,
        "Unauthorized" => DbError::Unauthorized,
        "ConfigError" => DbError::ConfigError,
        "Unavailable" => DbError::Unavailable { consistency: c, required: 2, alive: 1 },
        "Overloaded" => DbError::Overloaded,
        "IsBootstrapping" => DbError::IsBootstrapping,
        "TruncateError" => DbError::TruncateError,
        "ReadTimeout" => DbError::ReadTimeout { consistency: c, received: 1, required: 2, data_present: false },
        "WriteTimeout" => DbError::WriteTimeout { consistency: c, received: 1, required: 2, write_type: WriteType::Simple },
        "ReadFailure" => DbError::ReadFailure { consistency: c, received: 1, required: 2, numfailures: 1, data_present: true },
        "WriteFailure" => DbError::WriteFailure { consistency: c, received: 1, required: 2, numfailures: 1, write_type: WriteType::Batch },
        "Unprepared" => DbError::Unprepared { statement_id: bytes::Bytes::from_static(b"id") },
        "ServerError" => DbError::ServerError,
        "ProtocolError" => DbError::ProtocolError,
        "RateLimitReached" => DbError::RateLimitReached { op_type: OperationType::Write, rejected_by_coordinator: true },
        "Other" => DbError::Other(0x4321),
        _ => return None,
    })
}

/// (error, message) of `<variant>[~fields]`
fn db_error(full: &str) -> Option<(DbError, String)> {
    let (name, var) = split_variant(full);
    let mut f: Vec<&str> = match var { None => return db_error_default(name).map(|e| (e, "reason".to_string())), Some(v) => v.split(';').collect() };
    let mut msg = "reason".to_string();
    if let Some(m) = f.last().and_then(|l| l.strip_prefix('m')) {
        // the message field is told from a keyspace / kind by its position: it is always an EXTRA last field
        let arity = match name {
            "RateLimitReached" | "AlreadyExists" => 2,
            "Unavailable" | "FunctionFailure" => 3,
            "ReadTimeout" | "WriteTimeout" => 4,
            "ReadFailure" | "WriteFailure" => 5,
            "Unprepared" | "Other" => 1,
            _ => 0,
        };
        if f.len() == arity + 1 {
            msg = text(m);
            f.pop();
        }
    }
    let b = |s: &str| match s { "0" => Some(false), "1" => Some(true), _ => None };
    let e = match (name, f.as_slice()) {
        ("RateLimitReached", [op, rbc]) => {
            let op_type = match op.strip_prefix("op")? {
                "R" => OperationType::Read,
                "W" => OperationType::Write,
                o => OperationType::Other(u8::from_str_radix(o.strip_prefix('O')?, 16).ok()?),
            };
            DbError::RateLimitReached { op_type, rejected_by_coordinator: b(rbc.strip_prefix("rbc")?)? }
        }
        ("Unavailable", [c, r, a]) => DbError::Unavailable { consistency: cl_of(c)?, required: num(r)?, alive: num(a)? },
        ("ReadTimeout", [c, rc, rq, dp]) => {
            DbError::ReadTimeout { consistency: cl_of(c)?, received: num(rc)?, required: num(rq)?, data_present: b(dp)? }
        }
        ("WriteTimeout", [c, rc, rq, wt]) => {
            DbError::WriteTimeout { consistency: cl_of(c)?, received: num(rc)?, required: num(rq)?, write_type: wt_of(wt)? }
        }
        ("ReadFailure", [c, rc, rq, nf, dp]) => DbError::ReadFailure {
            consistency: cl_of(c)?, received: num(rc)?, required: num(rq)?, numfailures: num(nf)?, data_present: b(dp)?,
        },
        ("WriteFailure", [c, rc, rq, nf, wt]) => DbError::WriteFailure {
            consistency: cl_of(c)?, received: num(rc)?, required: num(rq)?, numfailures: num(nf)?, write_type: wt_of(wt)?,
        },
        ("AlreadyExists", [k, t]) => DbError::AlreadyExists { keyspace: text(k), table: text(t) },
        ("FunctionFailure", [k, fun, n]) => DbError::FunctionFailure {
            keyspace: text(k),
            function: text(fun),
            arg_types: (0..num(n)?).map(|i| if i % 2 == 0 { "int".to_string() } else { "frozen<list<text>>".to_string() }).collect(),
        },
        ("Unprepared", [id]) => DbError::Unprepared {
            statement_id: if *id == "-" {
                bytes::Bytes::new()
            } else {
                if id.len() % 2 != 0 { return None; }
                let mut v = vec![];
                for i in (0..id.len()).step_by(2) { v.push(u8::from_str_radix(id.get(i..i + 2)?, 16).ok()?); }
                bytes::Bytes::from(v)
            },
        },
        ("Other", [code]) => DbError::Other(num(code)?),
        // a variant without fields: only the message can vary
        (_, []) => db_error_default(name).filter(|_| !matches!(name, "RateLimitReached" | "Unavailable" | "ReadTimeout"
            | "WriteTimeout" | "ReadFailure" | "WriteFailure" | "AlreadyExists" | "FunctionFailure" | "Unprepared" | "Other"))?,
        _ => return None,
    };
    Some((e, msg))
}

/// the field suffix of a value, read back from the REAL value (checked against the requested one)
fn db_variant(d: &DbError) -> Option<String> {
    Some(match d {
        DbError::RateLimitReached { op_type, rejected_by_coordinator } => format!(
            "op{};rbc{}",
            match op_type { OperationType::Read => "R".to_string(), OperationType::Write => "W".to_string(), OperationType::Other(x) => format!("O{:x}", x) },
            *rejected_by_coordinator as u8
        ),
        DbError::Unavailable { consistency, required, alive } => format!("{};{};{}", cl_name(*consistency), hex_i(*required as i128), hex_i(*alive as i128)),
        DbError::ReadTimeout { consistency, received, required, data_present } => {
            format!("{};{};{};{}", cl_name(*consistency), hex_i(*received as i128), hex_i(*required as i128), *data_present as u8)
        }
        DbError::WriteTimeout { consistency, received, required, write_type } => {
            format!("{};{};{};{}", cl_name(*consistency), hex_i(*received as i128), hex_i(*required as i128), wt_name(write_type))
        }
        DbError::ReadFailure { consistency, received, required, numfailures, data_present } => format!(
            "{};{};{};{};{}", cl_name(*consistency), hex_i(*received as i128), hex_i(*required as i128), hex_i(*numfailures as i128), *data_present as u8
        ),
        DbError::WriteFailure { consistency, received, required, numfailures, write_type } => format!(
            "{};{};{};{};{}", cl_name(*consistency), hex_i(*received as i128), hex_i(*required as i128), hex_i(*numfailures as i128), wt_name(write_type)
        ),
        DbError::AlreadyExists { keyspace, table } => format!("{};{}", untext(keyspace), untext(table)),
        DbError::FunctionFailure { keyspace, function, arg_types } => format!("{};{};{:x}", untext(keyspace), untext(function), arg_types.len()),
        DbError::Unprepared { statement_id } => if statement_id.is_empty() { "-".into() } else { statement_id.iter().map(|b| format!("{:02x}", b)).collect() },
        DbError::Other(c) => hex_i(*c as i128),
        _ => return None,
    })
}

/// does the constructed value carry the fields the case line names?
fn fields_round_trip(full: &str, e: &RequestError) -> bool {
    let (_, var) = split_variant(full);
    let var = match var { None => return true, Some(v) => v };
    match e {
        RequestError::LastAttemptError(RequestAttemptError::DbError(d, m)) => {
            let got = db_variant(d).unwrap_or_default();
            let with_m = if got.is_empty() { format!("m{}", untext(m)) } else { format!("{};m{}", got, untext(m)) };
            var == got || var == with_m
        }
        _ => true,
    }
}

fn attempt_error(full: &str) -> Option<RequestAttemptError> {
    if let Some(d) = full.strip_prefix("DbError.") {
        return db_error(d).map(|(e, m)| RequestAttemptError::DbError(e, m));
    }
    let (name, var) = split_variant(full);
    let ip: std::net::IpAddr = "127.0.0.1".parse().unwrap();
    Some(match (name, var) {
        ("SerializationError", None) => RequestAttemptError::SerializationError(SerializationError::new(Dummy)),
        ("CqlRequestSerialization", None) => RequestAttemptError::CqlRequestSerialization(
            CqlRequestSerializationError::SnapCompressError(Arc::new(Dummy)),
        ),
        ("UnableToAllocStreamId", None) => RequestAttemptError::UnableToAllocStreamId,
        ("BrokenConnectionError", k) => RequestAttemptError::BrokenConnectionError(BrokenConnectionError::from(broken_kind(k.unwrap_or("KeepaliveTimeout"), ip)?)),
        ("BodyExtensionsParseError", None) => {
            RequestAttemptError::BodyExtensionsParseError(FrameBodyExtensionsParseError::NoCompressionNegotiated)
        }
        ("CqlResultParseError", id) => RequestAttemptError::CqlResultParseError(CqlResultParseError::UnknownResultId(match id { None => 77, Some(x) => num(x)? })),
        ("CqlErrorParseError", None) => RequestAttemptError::CqlErrorParseError(CqlErrorParseError::ErrorCodeParseError(
            scylla_cql::frame::frame_errors::LowLevelDeserializationError::InvalidValueLength(-7),
        )),
        ("UnexpectedResponse", k) => RequestAttemptError::UnexpectedResponse(match k.unwrap_or("Ready") {
            "Error" => CqlResponseKind::Error,
            "Ready" => CqlResponseKind::Ready,
            "Result" => CqlResponseKind::Result,
            "Authenticate" => CqlResponseKind::Authenticate,
            "AuthSuccess" => CqlResponseKind::AuthSuccess,
            "AuthChallenge" => CqlResponseKind::AuthChallenge,
            "Supported" => CqlResponseKind::Supported,
            "Event" => CqlResponseKind::Event,
            _ => return None,
        }),
        ("RepreparedIdChanged", n) => {
            let n = match n { None => 1, Some(x) => num(x)? as usize };
            RequestAttemptError::RepreparedIdChanged {
                statement: "s".repeat(n),
                expected_id: vec![1; n],
                reprepared_id: vec![2; n],
            }
        }
        ("RepreparedIdMissingInBatch", None) => RequestAttemptError::RepreparedIdMissingInBatch,
        ("NonfinishedPagingState", None) => RequestAttemptError::NonfinishedPagingState,
        _ => return None,
    })
}

fn broken_kind(k: &str, ip: std::net::IpAddr) -> Option<BrokenConnectionErrorKind> {
    Some(match k {
        "KeepaliveTimeout" => BrokenConnectionErrorKind::KeepaliveTimeout(ip),
        "KeepaliveRequestError" => BrokenConnectionErrorKind::KeepaliveRequestError(Arc::new(Dummy)),
        "UnexpectedStreamId" => BrokenConnectionErrorKind::UnexpectedStreamId(-3),
        "WriteError" => BrokenConnectionErrorKind::WriteError(std::io::Error::new(std::io::ErrorKind::BrokenPipe, "pipe")),
        "TooManyOrphanedStreamIds" => BrokenConnectionErrorKind::TooManyOrphanedStreamIds(1024),
        "ChannelError" => BrokenConnectionErrorKind::ChannelError,
        _ => return None,
    })
}

fn request_error(full: &str) -> Option<RequestError> {
    if let Some(a) = full.strip_prefix("LastAttemptError.") {
        return attempt_error(a).map(RequestError::LastAttemptError);
    }
    let (name, var) = split_variant(full);
    let ip: std::net::IpAddr = "127.0.0.1".parse().unwrap();
    Some(match (name, var) {
        ("EmptyPlan", None) => RequestError::EmptyPlan,
        ("ConnectionPoolError", k) => RequestError::ConnectionPoolError(match k.unwrap_or("Initializing") {
            "Initializing" => ConnectionPoolError::Initializing,
            "NodeDisabledByHostFilter" => ConnectionPoolError::NodeDisabledByHostFilter,
            "Broken.ConnectTimeout" => ConnectionPoolError::Broken { last_connection_error: ConnectionError::ConnectTimeout },
            "Broken.IoError" => ConnectionPoolError::Broken {
                last_connection_error: ConnectionError::IoError(Arc::new(std::io::Error::new(std::io::ErrorKind::ConnectionRefused, "refused"))),
            },
            "Broken.NoSourcePortForShard" => ConnectionPoolError::Broken { last_connection_error: ConnectionError::NoSourcePortForShard(3) },
            "Broken.BrokenConnection" => ConnectionPoolError::Broken {
                last_connection_error: ConnectionError::BrokenConnection(BrokenConnectionError::from(broken_kind("ChannelError", ip)?)),
            },
            _ => return None,
        }),
        ("RequestTimeout", ms) => RequestError::RequestTimeout(Duration::from_millis(match ms { None => 5, Some(x) => num(x)? as u64 })),
        _ => return None,
    })
}

/// every field variant generated for an error name (empty: the variant has no fields that are varied)
fn variants(name: &str) -> Vec<String> {
    let mut v: Vec<String> = vec![];
    let counts = [(0, 2), (1, 2), (2, 2), (3, 2)]; // received 0 / < required / = required / > required
    let short = name.rsplit('.').next().unwrap_or(name);
    let is_db = name.starts_with("LastAttemptError.DbError.");
    match short {
        "RateLimitReached" if is_db => {
            for op in ["R", "W", "O2", "Off"] {
                for rbc in [0, 1] {
                    v.push(format!("op{};rbc{}", op, rbc));
                }
            }
        }
        "Unavailable" if is_db => {
            for c in CLS {
                for (rq, al) in [(2, 0), (2, 1), (3, 3), (1, 2)] {
                    v.push(format!("{};{:x};{:x}", c.0, rq, al));
                }
            }
        }
        "ReadTimeout" if is_db => {
            for c in CLS { for (rc, rq) in counts { for dp in [0, 1] { v.push(format!("{};{:x};{:x};{}", c.0, rc, rq, dp)); } } }
        }
        "WriteTimeout" if is_db => {
            for c in CLS { for (rc, rq) in counts { for wt in WTS { v.push(format!("{};{:x};{:x};{}", c.0, rc, rq, wt)); } } }
        }
        "ReadFailure" if is_db => {
            for c in CLS { for (rc, rq) in counts { for dp in [0, 1] { for nf in [0, 1] { v.push(format!("{};{:x};{:x};{:x};{}", c.0, rc, rq, nf, dp)); } } } }
        }
        "WriteFailure" if is_db => {
            for c in CLS { for (rc, rq) in counts { for wt in WTS { v.push(format!("{};{:x};{:x};{:x};{}", c.0, rc, rq, (rc + 1) % 3, wt)); } } }
        }
        "AlreadyExists" if is_db => {
            for (k, t) in [("k", "t"), ("_", "_"), ("system", "local"), ("Keyspace_With_A_Long_Name_0123456789", "T")] { v.push(format!("{};{}", k, t)); }
        }
        "FunctionFailure" if is_db => {
            for (k, f, n) in [("k", "f", 0), ("_", "_", 0), ("ks", "my_udf", 1), ("ks", "agg", 3)] { v.push(format!("{};{};{:x}", k, f, n)); }
        }
        "Unprepared" if is_db => {
            for id in ["-", "6964", "00", "000102030405060708090a0b0c0d0e0f", "ffffffffffffffffffffffffffffffffffffffffffffffffffffffffffffffff"] { v.push(id.to_string()); }
        }
        "Other" if is_db => {
            // incl. the codes of Unavailable / Overloaded / a rate-limit code a server might advertise
            for code in ["4321", "0", "-1", "1000", "1001", "7fffffff", "-80000000", "4000"] { v.push(code.to_string()); }
        }
        "BrokenConnectionError" => v.extend(BROKEN_KINDS.iter().map(|s| s.to_string())),
        "ConnectionPoolError" => v.extend(POOL_KINDS.iter().map(|s| s.to_string())),
        "RequestTimeout" => v.extend(["0", "5", "7530"].iter().map(|s| s.to_string())),
        "UnexpectedResponse" => v.extend(RESPONSE_KINDS.iter().map(|s| s.to_string())),
        "CqlResultParseError" => v.extend(["0", "4d", "-1"].iter().map(|s| s.to_string())),
        "RepreparedIdChanged" => v.extend(["0", "1", "10"].iter().map(|s| s.to_string())),
        // a DbError variant without fields: the server's message
        _ if is_db => v.extend(["m_", "mreason", "mrate_limit_unavailable_timeout"].iter().map(|s| s.to_string())),
        _ => {}
    }
    v
}

/// Name of the variant of an error that came back from the real code (independent of the
/// constructor table above: goes through the real enum's shape).
fn error_name(e: &RequestError) -> String {
    match e {
        RequestError::EmptyPlan => "EmptyPlan".into(),
        RequestError::ConnectionPoolError(_) => "ConnectionPoolError".into(),
        RequestError::RequestTimeout(_) => "RequestTimeout".into(),
        RequestError::LastAttemptError(a) => format!(
            "LastAttemptError.{}",
            match a {
                RequestAttemptError::SerializationError(_) => "SerializationError".to_string(),
                RequestAttemptError::CqlRequestSerialization(_) => "CqlRequestSerialization".into(),
                RequestAttemptError::UnableToAllocStreamId => "UnableToAllocStreamId".into(),
                RequestAttemptError::BrokenConnectionError(_) => "BrokenConnectionError".into(),
                RequestAttemptError::BodyExtensionsParseError(_) => "BodyExtensionsParseError".into(),
                RequestAttemptError::CqlResultParseError(_) => "CqlResultParseError".into(),
                RequestAttemptError::CqlErrorParseError(_) => "CqlErrorParseError".into(),
                RequestAttemptError::UnexpectedResponse(_) => "UnexpectedResponse".into(),
                RequestAttemptError::RepreparedIdChanged { .. } => "RepreparedIdChanged".into(),
                RequestAttemptError::RepreparedIdMissingInBatch => "RepreparedIdMissingInBatch".into(),
                RequestAttemptError::NonfinishedPagingState => "NonfinishedPagingState".into(),
                RequestAttemptError::DbError(d, _) => format!(
                    "DbError.{}",
                    match d {
                        DbError::SyntaxError => "SyntaxError",
                        DbError::Invalid => "Invalid",
                        DbError::AlreadyExists { .. } => "AlreadyExists",
                        DbError::FunctionFailure { .. } => "FunctionFailure",
                        DbError::AuthenticationError => "AuthenticationError",
                        DbError::Unauthorized => "Unauthorized",
                        DbError::ConfigError => "ConfigError",
                        DbError::Unavailable { .. } => "Unavailable",
                        DbError::Overloaded => "Overloaded",
                        DbError::IsBootstrapping => "IsBootstrapping",
                        DbError::TruncateError => "TruncateError",
                        DbError::ReadTimeout { .. } => "ReadTimeout",
                        DbError::WriteTimeout { .. } => "WriteTimeout",
                        DbError::ReadFailure { .. } => "ReadFailure",
                        DbError::WriteFailure { .. } => "WriteFailure",
                        DbError::Unprepared { .. } => "Unprepared",
                        DbError::ServerError => "ServerError",
                        DbError::ProtocolError => "ProtocolError",
                        DbError::RateLimitReached { .. } => "RateLimitReached",
                        DbError::Other(_) => "Other",
                        _ => "UNKNOWN-DB-VARIANT",
                    }
                ),
                _ => "UNKNOWN-ATTEMPT-VARIANT".into(),
            }
        ),
        _ => "UNKNOWN-REQUEST-VARIANT".into(),
    }
}

type FiberOut = Option<Result<u64, RequestError>>;

fn parse_out(s: &str) -> Option<FiberOut> {
    if s == "N" {
        Some(None)
    } else if let Some(t) = s.strip_prefix('S') {
        u64::from_str_radix(t, 16).ok().map(|v| Some(Ok(v)))
    } else if let Some(e) = s.strip_prefix('E') {
        request_error(e).map(|e| Some(Err(e)))
    } else {
        None
    }
}

/// Aborts a future that is polled absurdly often (a busy loop instead of a wait).
struct PollLimit<F> {
    inner: Pin<Box<F>>,
    polls: u32,
}
impl<F: Future> Future for PollLimit<F> {
    type Output = Option<F::Output>;
    fn poll(mut self: Pin<&mut Self>, cx: &mut Context<'_>) -> Poll<Self::Output> {
        self.polls += 1;
        if self.polls > 100_000 {
            return Poll::Ready(None);
        }
        self.inner.as_mut().poll(cx).map(Some)
    }
}

fn fmt_time(d: Duration) -> String {
    let us = d.as_micros();
    if us % 1000 == 0 { hex_u(us / 1000) } else { format!("us{}", us) }
}

/// One call of the real `execute` under a fresh paused-clock runtime.
fn run_once(max: usize, interval: u64, fibers: &[(u64, FiberOut)]) -> String {
    let rt = tokio::runtime::Builder::new_current_thread().enable_time().start_paused(true).build().unwrap();
    let fibers: Vec<(u64, FiberOut)> = fibers.to_vec();
    let r = catch(std::panic::AssertUnwindSafe(move || {
        rt.block_on(async move {
            let policy = SimpleSpeculativeExecutionPolicy {
                max_retry_count: max,
                retry_interval: Duration::from_millis(interval),
            };
            let ctx = hooks::context();
            let t0 = tokio::time::Instant::now();
            let starts: Rc<RefCell<Vec<String>>> = Rc::new(RefCell::new(vec![]));
            let generator = {
                let starts = starts.clone();
                move |is_speculative: bool| {
                    let k = starts.borrow().len();
                    let mut s = fmt_time(tokio::time::Instant::now() - t0);
                    if is_speculative != (k > 0) {
                        s.push_str("!flag");
                    }
                    starts.borrow_mut().push(s);
                    let (d, out) = fibers.get(k).cloned().unwrap_or((0, None));
                    async move {
                        if d > 0 {
                            tokio::time::sleep(Duration::from_millis(d)).await;
                        }
                        out
                    }
                }
            };
            let call = PollLimit { inner: Box::pin(hooks::execute::<_, u64>(&policy, &ctx, generator)), polls: 0 };
            let res = tokio::time::timeout(Duration::from_secs(100_000), call).await;
            let end = fmt_time(tokio::time::Instant::now() - t0);
            let st = starts.borrow().join(",");
            match res {
                Err(_) => format!("{}/hang/{}", st, end),
                Ok(None) => format!("{}/spin/{}", st, end),
                Ok(Some(Ok(v))) => format!("{}/S{}/{}", st, hex_u(v as u128), end),
                Ok(Some(Err(e))) => format!("{}/E{}/{}", st, error_name(&e), end),
            }
        })
    }));
    r.unwrap_or_else(|_| "panic".into())
}

/// One call of the real `run_request_no_side_effects` over a plan of probe targets (no node behind
/// them: every attempt waits `delay` ticks and fails with a pool error), paused clock.
/// Observation: the begin/end events of the attempts in the order they happened, with times.
fn run_probe_once(idem: bool, metrics: bool, policy: Option<(usize, u64)>, targets: &[(u32, u64)]) -> String {
    let rt = tokio::runtime::Builder::new_current_thread().enable_time().start_paused(true).build().unwrap();
    let targets: Vec<(u32, u64)> = targets.to_vec();
    let r = catch(std::panic::AssertUnwindSafe(move || {
        rt.block_on(async move {
            let t0 = tokio::time::Instant::now();
            let log: Arc<std::sync::Mutex<Vec<String>>> = Arc::new(std::sync::Mutex::new(vec![]));
            let on_event: Arc<dyn Fn(u32, bool) + Send + Sync> = {
                let log = log.clone();
                Arc::new(move |id: u32, begin: bool| {
                    let t = fmt_time(tokio::time::Instant::now() - t0);
                    log.lock().unwrap().push(format!("{}{}@{}", if begin { "b" } else { "e" }, hex_u(id as u128), t));
                })
            };
            let plan: Vec<xhooks::ProbeTarget> = targets
                .iter()
                .map(|&(id, d)| xhooks::ProbeTarget { id, delay: Duration::from_millis(d), on_event: on_event.clone() })
                .collect();
            let pol = policy.map(|(max, iv)| SimpleSpeculativeExecutionPolicy {
                max_retry_count: max,
                retry_interval: Duration::from_millis(iv),
            });
            let pol_ref: Option<&dyn scylla::policies::speculative_execution::SpeculativeExecutionPolicy> =
                pol.as_ref().map(|p| p as _);
            let call = PollLimit { inner: Box::pin(xhooks::run_probe_plan(idem, metrics, pol_ref, plan)), polls: 0 };
            let res = tokio::time::timeout(Duration::from_secs(100_000), call).await;
            let end = fmt_time(tokio::time::Instant::now() - t0);
            let ev = log.lock().unwrap().join(",");
            let ev = if ev.is_empty() { "-".to_string() } else { ev };
            match res {
                Err(_) => format!("{}/hang/{}", ev, end),
                Ok(None) => format!("{}/spin/{}", ev, end),
                Ok(Some(Ok(()))) => format!("{}/S0/{}", ev, end),
                Ok(Some(Err(e))) => format!("{}/E{}/{}", ev, error_name(&e), end),
            }
        })
    }));
    r.unwrap_or_else(|_| "panic".into())
}

fn run_case(case: &str, repeat: usize) -> String {
    let f: Vec<&str> = case.split_whitespace().collect();
    match f.first().copied() {
        Some("I") | Some("IF") if f.len() == 2 => {
            let r: Result<u64, RequestError> = if let Some(t) = f[1].strip_prefix('S') {
                Ok(u64::from_str_radix(t, 16).unwrap_or(0))
            } else if let Some(e) = f[1].strip_prefix('E').and_then(request_error) {
                Err(e)
            } else {
                return "error bad-result".into();
            };
            // the constructor table must produce the variant it is asked for
            // ... with the fields the case line names
            if let Err(e) = &r {
                if format!("E{}", error_name(e)) != split_variant(f[1]).0 || !fields_round_trip(f[1], e) {
                    return "error constructor-table".into();
                }
            }
            if hooks::can_be_ignored(&r) { "1".into() } else { "0".into() }
        }
        Some("X") | Some("XF") if f.len() == 4 => {
            let max = usize::from_str_radix(f[1], 16).unwrap();
            let interval = u64::from_str_radix(f[2], 16).unwrap();
            let mut fibers = vec![];
            if f[3] != "-" {
                for e in f[3].split(',') {
                    let (d, o) = match e.split_once(':') {
                        Some(x) => x,
                        None => return "error bad-fiber".into(),
                    };
                    let out = match parse_out(o) {
                        Some(x) => x,
                        None => return "error bad-outcome".into(),
                    };
                    if let Some(Err(e)) = &out {
                        if !fields_round_trip(&o[1..], e) {
                            return "error constructor-table".into();
                        }
                    }
                    fibers.push((u64::from_str_radix(d, 16).unwrap(), out));
                }
            }
            let mut seen: Vec<String> = vec![];
            for _ in 0..repeat {
                let o = run_once(max, interval, &fibers);
                if !seen.contains(&o) {
                    seen.push(o);
                }
            }
            // how the REAL can_be_ignored classifies each listed outcome ('-' for None): the driver
            // judges the observations with the model's table only where the two agree
            let bits: String = fibers
                .iter()
                .map(|(_, o)| match o {
                    None => '-',
                    Some(Ok(v)) => if hooks::can_be_ignored::<u64>(&Ok(*v)) { '1' } else { '0' },
                    Some(Err(e)) => {
                        let r: Result<u64, RequestError> = Err(e.clone());
                        if hooks::can_be_ignored(&r) { '1' } else { '0' }
                    }
                })
                .collect();
            seen.push(format!("c={}", if bits.is_empty() { "-".to_string() } else { bits }));
            seen.join(" ")
        }
        Some("P") if f.len() == 5 => {
            let idem = f[1] == "1";
            let metrics = f[2] == "1";
            let policy = if f[3] == "-" {
                None
            } else {
                let (m, i) = f[3].split_once(':').unwrap();
                Some((usize::from_str_radix(m, 16).unwrap(), u64::from_str_radix(i, 16).unwrap()))
            };
            let mut targets = vec![];
            if f[4] != "-" {
                for e in f[4].split(',') {
                    let (id, d) = e.split_once(':').unwrap();
                    targets.push((u32::from_str_radix(id, 16).unwrap(), u64::from_str_radix(d, 16).unwrap()));
                }
            }
            let mut seen: Vec<String> = vec![];
            for _ in 0..repeat {
                let o = run_probe_once(idem, metrics, policy, &targets);
                if !seen.contains(&o) {
                    seen.push(o);
                }
            }
            seen.join(" ")
        }
        _ => "error unknown-case".into(),
    }
}

// ------------------------------------------------------------------ generators

const IGNORABLE: &[&str] = &[
    "ConnectionPoolError",
    "LastAttemptError.BrokenConnectionError",
    "LastAttemptError.UnableToAllocStreamId",
    "LastAttemptError.DbError.Unavailable",
    "LastAttemptError.DbError.Overloaded",
    "LastAttemptError.DbError.IsBootstrapping",
    "LastAttemptError.DbError.ReadTimeout",
    "LastAttemptError.DbError.WriteTimeout",
    "LastAttemptError.DbError.ReadFailure",
    "LastAttemptError.DbError.WriteFailure",
    "LastAttemptError.DbError.Unprepared",
    "LastAttemptError.DbError.ServerError",
    "LastAttemptError.DbError.RateLimitReached",
];

fn all_error_names() -> Vec<String> {
    let mut v: Vec<String> = vec!["EmptyPlan".into(), "ConnectionPoolError".into(), "RequestTimeout".into()];
    for a in ATTEMPT_NAMES {
        v.push(format!("LastAttemptError.{}", a));
    }
    for d in DB_NAMES {
        v.push(format!("LastAttemptError.DbError.{}", d));
    }
    v
}

/// attach a field variant (7 of 8 times when the variant has varied fields)
fn with_variant(r: &mut Rng, out: String) -> String {
    if let Some(name) = out.strip_prefix('E') {
        let vs = variants(name);
        if !vs.is_empty() && !r.chance(1, 8) {
            return format!("{}~{}", out, r.pick(&vs));
        }
    }
    out
}

fn gen_out(r: &mut Rng, k: usize, errs: &[String]) -> String {
    let o = gen_out_class(r, k, errs);
    with_variant(r, o)
}

fn gen_out_class(r: &mut Rng, k: usize, errs: &[String]) -> String {
    match r.below(100) {
        0..=44 => format!("E{}", r.pick(IGNORABLE)),
        45..=59 => format!("S{}", hex_u(k as u128 + 1)),
        60..=74 => {
            // a definitive error: any variant that is not in the ignorable list
            loop {
                let e = r.pick(errs);
                if !IGNORABLE.contains(&e.as_str()) {
                    break format!("E{}", e);
                }
            }
        }
        75..=79 => format!("E{}", r.pick(errs)),
        _ => "N".into(),
    }
}

fn gen_case(r: &mut Rng, errs: &[String], thorough: bool) -> String {
    let max = r.below(5) as usize;
    let interval = if thorough && r.chance(1, 12) { r.range(6, 20) } else { *r.pick(&[0u64, 1, 1, 1, 2, 2, 2, 3, 5]) };
    let nf = match r.below(10) {
        0 => r.below(3) as usize,
        1..=3 => r.below(6) as usize,
        _ => (max + 1).min(5),
    };
    let style = r.below(4);
    let mut fs = vec![];
    for k in 0..nf {
        let d = match style {
            // multiples of the interval: completions coincide with timer ticks
            0 => interval * r.below(5),
            // all executions end at the same instant T: start k is at k*interval
            1 => (interval * 4).saturating_sub(interval * k as u64) + if r.chance(1, 5) { 1 } else { 0 },
            2 => r.below(4),
            _ => match r.below(6) {
                0 => 0,
                1 => interval * r.below(4),
                _ => r.below(13),
            },
        };
        fs.push(format!("{}:{}", hex_u(d as u128), gen_out(r, k, errs)));
    }
    let fl = if fs.is_empty() { "-".to_string() } else { fs.join(",") };
    format!("X {} {} {}", hex_u(max as u128), hex_u(interval as u128), fl)
}

fn gen_probe_case(r: &mut Rng) -> String {
    let idem = !r.chance(2, 5);
    let metrics = !r.chance(1, 7);
    let interval = *r.pick(&[0u64, 1, 1, 2, 2, 3, 5]);
    let policy = if r.chance(1, 7) { "-".to_string() } else { format!("{}:{}", hex_u(r.below(5) as u128), hex_u(interval as u128)) };
    let n = match r.below(8) { 0 => 0, 1 => 1, _ => r.range(2, 8) } as usize;
    let mut ids: Vec<u32> = (1..=n as u32).collect();
    if r.bool() {
        r.shuffle(&mut ids);
    }
    let style = r.below(4);
    let iv = interval.max(1);
    let tg: Vec<String> = ids
        .iter()
        .map(|id| {
            let d = match style {
                0 => iv * r.below(4),
                1 => r.below(3),
                2 => iv,
                _ => match r.below(5) { 0 => 0, 1 => iv * r.below(3), _ => r.below(9) },
            };
            format!("{}:{}", hex_u(*id as u128), hex_u(d as u128))
        })
        .collect();
    format!(
        "P {} {} {} {}",
        idem as u8,
        metrics as u8,
        policy,
        if tg.is_empty() { "-".to_string() } else { tg.join(",") }
    )
}

fn main() {
    let a = parse_args();
    quiet_panics();
    let mut out = Out::create(&a.out);
    let thorough = a.tier == "thorough";
    if let Some(p) = &a.replay {
        for c in read_cases(p) {
            if e2e::is_e2e_case(&c) {
                e2e::replay_case(&c, &mut out);
                continue;
            }
            let o = run_case(&c, 48);
            out.case(&c, &o);
        }
        out.finish();
        return;
    }
    // E13: end-to-end scenarios (real Session against the mock cluster), see e2e_attempts.rs
    let e2e_n: u64 = std::env::var("E2E_N").ok().and_then(|s| s.parse().ok()).unwrap_or(if !thorough {
        260
    } else if a.n >= 2_000_000 {
        2500
    } else {
        600 // the orchestrator's search rounds
    });
    e2e::run(e2e::Mix::C13, a.seed, e2e_n, &a.tier, &mut out);
    if std::env::var("E2E_ONLY").is_ok() {
        out.finish();
        return;
    }
    let repeat = if thorough { 4 } else { 3 };
    let errs = all_error_names();
    // the complete can_be_ignored table
    for c in std::iter::once("I S1".to_string()).chain(errs.iter().map(|e| format!("I E{}", e))) {
        let o = run_case(&c, 1);
        out.case(&c, &o);
    }
    // field variants (wave-4 follow-up): the can_be_ignored table over every generated field variant ...
    for e in &errs {
        for v in variants(e) {
            let c = format!("IF E{}~{}", e, v);
            let o = run_case(&c, 1);
            out.case(&c, &o);
        }
    }
    // ... and, directed, each of them through execute: produced by one execution while another one is still
    // in flight and succeeds later (first / second execution), and as the last result (of two, both orders; alone)
    let other = "ELastAttemptError.UnableToAllocStreamId";
    for e in &errs {
        for v in variants(e) {
            let x = format!("E{}~{}", e, v);
            for c in [
                format!("XF 1 2 3:{},4:S2", x),      // error at 3, the second execution (started at 2) succeeds at 6
                format!("XF 1 2 6:S1,1:{}", x),      // second execution fails at 3, the first succeeds at 6
                format!("XF 2 1 2:{},5:S2,1:{}", x, other), // two failures (at 2 and 3) while the success at 6 is pending
                format!("XF 1 2 3:{},3:{}", other, x), // the last result (at 5) after an ignorable error at 3
                format!("XF 1 2 5:{},1:{}", x, other), // the last result (at 5), of the FIRST execution
                format!("XF 0 1 2:{}", x),           // the only result
            ] {
                let o = run_case(&c, repeat);
                out.case(&c, &o);
            }
        }
    }
    // exhaustive small part: every (duration, outcome class) assignment to 1 + max executions
    let reps = ["ELastAttemptError.UnableToAllocStreamId", "S", "ELastAttemptError.DbError.Invalid", "N"];
    let grids: &[(usize, &[u64], &[u64])] = if thorough {
        &[(0, &[1, 2], &[0, 1, 2, 3]), (1, &[1, 2, 3], &[0, 1, 2, 3, 4]), (2, &[1, 2], &[0, 1, 2, 3, 4]), (3, &[1], &[0, 1, 2, 3]), (4, &[1], &[0, 2])]
    } else {
        &[(0, &[1, 2], &[0, 1, 2, 3]), (1, &[1, 2], &[0, 1, 2, 3]), (2, &[1, 2], &[0, 1, 2, 4]), (3, &[1], &[0, 2]), (4, &[1], &[1])]
    };
    for (max, intervals, durs) in grids {
        let n = max + 1;
        let per = durs.len() * reps.len();
        let total = per.pow(n as u32);
        for &iv in *intervals {
            for code in 0..total {
                let mut c = code;
                let mut fs = vec![];
                for k in 0..n {
                    let x = c % per;
                    c /= per;
                    let d = durs[x / reps.len()];
                    let o = reps[x % reps.len()];
                    let o = if o == "S" { format!("S{}", hex_u(k as u128 + 1)) } else { o.to_string() };
                    fs.push(format!("{}:{}", hex_u(d as u128), o));
                }
                let case = format!("X {} {} {}", hex_u(*max as u128), hex_u(iv as u128), fs.join(","));
                let o = run_case(&case, repeat);
                out.case(&case, &o);
            }
        }
    }
    // probe plans, exhaustive small part: every gate configuration x every plan of <= 3 targets
    // with delays in {0,1,2}
    let mut policies: Vec<String> = vec!["-".into()];
    for max in 0..=2u32 {
        for iv in [1u32, 2] {
            policies.push(format!("{:x}:{:x}", max, iv));
        }
    }
    let pmax = if thorough { 4 } else { 3 };
    for n in 0..=pmax {
        for code in 0..3usize.pow(n as u32) {
            let mut c = code;
            let mut tg = vec![];
            for k in 0..n {
                tg.push(format!("{:x}:{:x}", k + 1, c % 3));
                c /= 3;
            }
            let tg = if tg.is_empty() { "-".to_string() } else { tg.join(",") };
            for idem in [0, 1] {
                for metrics in [0, 1] {
                    for pol in &policies {
                        let case = format!("P {} {} {} {}", idem, metrics, pol, tg);
                        let o = run_case(&case, repeat);
                        out.case(&case, &o);
                    }
                }
            }
        }
    }
    let mut r = Rng::new(a.seed);
    for _ in 0..a.n {
        let case = if r.chance(1, 4) { gen_probe_case(&mut r) } else { gen_case(&mut r, &errs, thorough) };
        let o = run_case(&case, repeat);
        out.case(&case, &o);
    }
    out.finish();
}
