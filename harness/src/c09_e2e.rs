//! C09 end-to-end half: a real `Session` against `vh::mocknode` issues session-level calls with known
//! options (consistency, serial consistency, page size, paging state, timestamp, cached-metadata
//! flag, metadata-id extension on/off, batch shapes); every request frame the node received is
//! reported next to WHAT WAS ASKED, in the case syntax of c09.rs with '/' instead of blanks:
//!   Q/<text>/<qparams>   E/2/<id>/<mid|N>/<qparams>   B/c/<type>/<cons>/<serial>/<ts>/<stmts>/<vals>
//! Connection setup is covered too: every OPTIONS / STARTUP / REGISTER frame the node received while the
//! Session was being built is reported as  O  |  S/<key>=<value>,..  |  R/2/<events>  next to what the
//! session builder asked for: CQL_VERSION 4.0.0, the custom driver name / version, optional application
//! name / version / client id (SelfIdentity), and one opt-in entry per protocol extension the node
//! advertised (SCYLLA_RATE_LIMIT_ERROR, SCYLLA_LWT_ADD_METADATA_MARK with the mask, TABLETS_ROUTING_V1,
//! SCYLLA_USE_METADATA_ID); the control connection registers for TOPOLOGY/STATUS/SCHEMA_CHANGE.  STARTUP maps
//! and REGISTER lists are compared as sets.  (No compression: the mock cannot decompress; no AUTH_RESPONSE:
//! the mock never sends AUTHENTICATE.)
//! The OCaml driver parses the frame with the extracted independent parser and compares.
//! What is "asked" follows the documented semantics of the Session API:
//!   * consistency / serial consistency: the statement's, else the default execution profile's
//!     (LOCAL_QUORUM / Some(LOCAL_SERIAL)); `set_serial_consistency(None)` = none on the wire
//!   * `*_unpaged`: no page size, no paging state; `*_single_page`: the statement's page size
//!     (default 5000) and the given paging state (start = none)
//!   * timestamp: the statement's (no generator configured)
//!   * QUERY never asks to skip metadata; EXECUTE asks iff the prepared result metadata has columns
//!     and (use_cached_result_metadata or the metadata-id extension is negotiated); with the
//!     extension EXECUTE carries the result metadata id (empty when metadata is not skipped)
//!   * values: the bound Rust values serialised as int = 4 bytes big-endian, text = UTF-8
use scylla::client::SelfIdentity;
use scylla::errors::{ExecutionError, PrepareError, RequestAttemptError};
use scylla::client::session_builder::SessionBuilder;
use scylla::response::PagingState;
use scylla::statement::batch::{Batch, BatchType};
use scylla::statement::unprepared::Statement;
use scylla::statement::{Consistency, SerialConsistency};
use std::time::Duration;
use vh::mocknode as mock;
use vh::mocknode::{Ev, op, wire};
use vh::*;

const CONS: [(Consistency, u8); 9] = [
    (Consistency::Any, 0),
    (Consistency::One, 1),
    (Consistency::Two, 2),
    (Consistency::Three, 3),
    (Consistency::Quorum, 4),
    (Consistency::All, 5),
    (Consistency::LocalQuorum, 6),
    (Consistency::EachQuorum, 7),
    (Consistency::LocalOne, 10),
];

struct Opts {
    cons: Option<(Consistency, u8)>,
    serial: Option<Option<SerialConsistency>>,
    ts: Option<i64>,
    page: Option<i32>,
}
impl Opts {
    fn make(r: &mut Rng) -> Opts {
        Opts {
            cons: if r.chance(2, 3) { Some(*r.pick(&CONS)) } else { None },
            serial: match r.below(4) {
                0 => None,
                1 => Some(None),
                2 => Some(Some(SerialConsistency::Serial)),
                _ => Some(Some(SerialConsistency::LocalSerial)),
            },
            ts: if r.bool() { Some(*r.pick(&[0i64, -1, 1, i64::MIN, i64::MAX, 1_700_000_000_123_456, 42])) } else { None },
            page: if r.bool() { Some(*r.pick(&[1i32, 7, 100, 65536, i32::MAX])) } else { None },
        }
    }
    fn cons_s(&self) -> String {
        format!("{:x}", self.cons.map(|c| c.1).unwrap_or(6))
    }
    fn serial_s(&self) -> String {
        match self.serial {
            None => "9".into(), // profile default LOCAL_SERIAL
            Some(None) => "-".into(),
            Some(Some(SerialConsistency::Serial)) => "8".into(),
            Some(Some(SerialConsistency::LocalSerial)) => "9".into(),
        }
    }
    fn ts_s(&self) -> String {
        self.ts.map(|t| hex_i(t as i128)).unwrap_or("-".into())
    }
}

fn int_cell(v: i32) -> String {
    format!("v{}", hex_bytes(&v.to_be_bytes()))
}
fn text_cell(t: &str) -> String {
    format!("v{}", hex_bytes(t.as_bytes()))
}

/// the request frames of user statements the cluster received since the last drain, as frame bytes
fn user_frames(cluster: &mock::MockCluster, ids: &[Vec<u8>], ext: bool) -> Vec<Vec<u8>> {
    let mut v = vec![];
    for e in cluster.drain_trace() {
        if let Ev::In { version, flags, stream, opcode, body } = &e.ev {
            let user = match *opcode {
                op::QUERY => wire::decode_query(body).map(|q| q.text.contains("ks.t")).unwrap_or(true),
                op::EXECUTE => wire::decode_execute(body, ext).map(|x| ids.contains(&x.id)).unwrap_or(true),
                op::BATCH => true,
                _ => false,
            };
            if user {
                let mut f = vec![*version, *flags];
                f.extend_from_slice(&stream.to_be_bytes());
                f.push(*opcode);
                f.extend_from_slice(&(body.len() as u32).to_be_bytes());
                f.extend_from_slice(body);
                v.push(f);
            }
        }
    }
    v
}

/// Why a scenario produced no judgement.
pub enum E2eErr {
    /// the scenario could not run: mock or session start; a call failing with an empty plan, a connection-pool error,
    /// a client timeout or a broken connection (decided on the error enums) (counted, capped)
    Env(String),
    /// the implementation did something the scenario does not allow for (a request failed although the node
    /// answers every request): reported as a broken correspondence, never as ok
    Deviation(String),
}
/// Environment = the error ENUM says the connection / pool / client timeout failed; everything else (a database
/// error, a serialisation or protocol error, ...) is a deviation of the implementation.
fn attempt_is_env(e: &RequestAttemptError) -> bool {
    matches!(e, RequestAttemptError::BrokenConnectionError(_))
}
fn prepare_is_env(e: &PrepareError) -> bool {
    match e {
        PrepareError::ConnectionPoolError(_) => true,
        PrepareError::AllAttemptsFailed { first_attempt } => attempt_is_env(first_attempt),
        _ => false,
    }
}
fn exec_is_env(e: &ExecutionError) -> bool {
    match e {
        ExecutionError::EmptyPlan | ExecutionError::ConnectionPoolError(_) | ExecutionError::RequestTimeout(_) => true,
        ExecutionError::LastAttemptError(a) => attempt_is_env(a),
        ExecutionError::PrepareError(p) => prepare_is_env(p),
        _ => false,
    }
}
fn classify_prepare(e: PrepareError) -> E2eErr {
    let msg = format!("prepare: {e}");
    if prepare_is_env(&e) { E2eErr::Env(msg) } else { E2eErr::Deviation(msg) }
}
fn classify(what: &str, e: ExecutionError) -> E2eErr {
    let msg = format!("{what}: {e}");
    if exec_is_env(&e) { E2eErr::Env(msg) } else { E2eErr::Deviation(msg) }
}

pub async fn run(serial: u64) -> Result<String, E2eErr> {
    let mut r = Rng::new(serial ^ 0xC09);
    let ext = serial % 2 == 1;
    let table = mock::TableDef::new("t", &[("pk", mock::CqlType::Int)], &[("ck", mock::CqlType::Int)], &[("v", mock::CqlType::Text)]);
    let mut spec = mock::ClusterSpec::uniform("c09", &[("dc1", 1)], 1, 4, 2)
        .with_keyspace(mock::KeyspaceDef::simple("ks", 1).with_table(table.clone()));
    spec.options.metadata_id_ext = ext;
    // which extensions the node advertises, and the identity the application configures
    let lwt_mask: Option<u32> = *r.pick(&[None, Some(0x8000_0000u32), Some(1), Some(0x0102_0304)]);
    spec.options.lwt_mark = lwt_mask;
    spec.options.tablets_ext = r.bool();
    let rate: Option<i32> = *r.pick(&[None, Some(61440), Some(1)]);
    spec.options.rate_limit_error = rate;
    let drv_name = *r.pick(&["verif-driver", "", "ScyllaDB Rust Driver (wrapped)", "żółw"]);
    let drv_ver = *r.pick(&["0.0.1-c09", "9.9.9", ""]);
    let app_name = if r.bool() { Some(*r.pick(&["c09-app", "app with spaces"])) } else { None };
    let app_ver = if r.bool() { Some("1.2.3") } else { None };
    let client_id = if r.bool() { Some("5d859006-4c1e-4c66-9d54-f29a2a09b1e4") } else { None };
    let mut identity = SelfIdentity::new().with_custom_driver_name(drv_name).with_custom_driver_version(drv_ver);
    if let Some(a) = app_name {
        identity = identity.with_application_name(a);
    }
    if let Some(a) = app_ver {
        identity = identity.with_application_version(a);
    }
    if let Some(c) = client_id {
        identity = identity.with_client_id(c);
    }
    let tablets = spec.options.tablets_ext;
    let cluster = mock::MockCluster::start(spec).await.map_err(|e| E2eErr::Env(format!("mock start: {e}")))?;
    let select = "SELECT pk, ck, v FROM ks.t WHERE pk = ? AND ck = ?";
    let insert = "INSERT INTO ks.t (pk, ck, v) VALUES (?, ?, ?)";
    let sel_mid = vec![0xA1, serial as u8, 3, 4, 5];
    let ins_mid = vec![0xB2, serial as u8];
    let mut ps = table.prepared("ks", &["pk", "ck"], &["pk", "ck", "v"]);
    ps.result_metadata_id = sel_mid.clone();
    cluster.on_prepare(select, ps);
    let mut pi = table.prepared("ks", &["pk", "ck", "v"], &[]);
    pi.result_metadata_id = ins_mid.clone();
    cluster.on_prepare(insert, pi);
    let session = SessionBuilder::new()
        .known_node_addr(cluster.contact_point(0))
        .local_ip_address(Some(cluster.client_ip()))
        .custom_identity(identity)
        .connection_timeout(Duration::from_secs(5))
        .cluster_metadata_refresh_interval(Duration::from_secs(600))
        .build()
        .await
        .map_err(|e| E2eErr::Env(format!("session: {e}")))?;
    let prep_sel = session.prepare(select).await.map_err(classify_prepare)?;
    let prep_ins = session.prepare(insert).await.map_err(classify_prepare)?;
    let sel_id = cluster.prepared_id(select);
    let ins_id = cluster.prepared_id(insert);
    let ids = vec![sel_id.clone(), ins_id.clone()];
    tokio::time::sleep(Duration::from_millis(50)).await;
    // ---- connection setup frames
    let mut want: Vec<(String, String)> = vec![
        ("CQL_VERSION".into(), "4.0.0".into()),
        ("DRIVER_NAME".into(), drv_name.into()),
        ("DRIVER_VERSION".into(), drv_ver.into()),
    ];
    if let Some(a) = app_name {
        want.push(("APPLICATION_NAME".into(), a.into()));
    }
    if let Some(a) = app_ver {
        want.push(("APPLICATION_VERSION".into(), a.into()));
    }
    if let Some(c) = client_id {
        want.push(("CLIENT_ID".into(), c.into()));
    }
    if rate.is_some() {
        want.push(("SCYLLA_RATE_LIMIT_ERROR".into(), "".into()));
    }
    if let Some(m) = lwt_mask {
        want.push(("SCYLLA_LWT_ADD_METADATA_MARK".into(), format!("LWT_OPTIMIZATION_META_BIT_MASK={}", m)));
    }
    if tablets {
        want.push(("TABLETS_ROUTING_V1".into(), "".into()));
    }
    if ext {
        want.push(("SCYLLA_USE_METADATA_ID".into(), "".into()));
    }
    let startup_asked = format!(
        "S/{}",
        want.iter().map(|(k, v)| format!("{}={}", hex_bytes(k.as_bytes()), hex_bytes(v.as_bytes()))).collect::<Vec<_>>().join(",")
    );
    let mut setup: Vec<String> = vec![];
    let (mut n_o, mut n_s, mut n_r) = (0, 0, 0);
    for e in cluster.drain_trace() {
        if let Ev::In { version, flags, stream, opcode, body } = &e.ev {
            let asked = match *opcode {
                op::OPTIONS if n_o < 3 => {
                    n_o += 1;
                    "O".to_string()
                }
                op::STARTUP if n_s < 4 => {
                    n_s += 1;
                    startup_asked.clone()
                }
                op::REGISTER if n_r < 2 => {
                    n_r += 1;
                    "R/2/t,s,c".to_string()
                }
                _ => continue,
            };
            let mut f = vec![*version, *flags];
            f.extend_from_slice(&stream.to_be_bytes());
            f.push(*opcode);
            f.extend_from_slice(&(body.len() as u32).to_be_bytes());
            f.extend_from_slice(body);
            setup.push(format!("{}:{}", asked, hex_bytes(&f)));
        }
    }
    if n_o == 0 || n_s == 0 || n_r == 0 {
        cluster.shutdown();
        return Err(E2eErr::Deviation(format!("setup frames not seen: options {n_o} startup {n_s} register {n_r}")));
    }

    let nreq = 10;
    let mut items: Vec<String> = setup;
    for i in 0..nreq {
        let o = Opts::make(&mut r);
        let kind = r.below(7);
        // paging state handed to the *_single_page calls
        let paging: Option<Vec<u8>> = match r.below(3) {
            0 => None,
            1 => Some(r.bytes(1 + (i % 9))),
            _ => Some(vec![]),
        };
        let paging_state = || match &paging {
            None => PagingState::start(),
            Some(b) => PagingState::new_from_raw_bytes(b.clone()),
        };
        let paging_s = match &paging {
            None => "N".to_string(),
            Some(b) => hex_bytes(b),
        };
        let page_s = hex_i(o.page.unwrap_or(5000) as i128);
        let asked: String;
        match kind {
            0 | 1 => {
                // unprepared statement without values: QUERY
                let text = format!("SELECT pk, ck, v FROM ks.t WHERE pk = {} /* {} */", i, r.below(1000));
                let mut st = Statement::new(text.clone());
                if let Some(c) = o.cons {
                    st.set_consistency(c.0);
                }
                if let Some(sc) = o.serial {
                    st.set_serial_consistency(sc);
                }
                st.set_timestamp(o.ts);
                if let Some(p) = o.page {
                    st.set_page_size(p);
                }
                if kind == 0 {
                    session.query_unpaged(st, ()).await.map_err(|e| classify("query_unpaged", e))?;
                    asked = format!("Q/{}/{}/{}/{}/-/N/0/-", hex_bytes(text.as_bytes()), o.cons_s(), o.serial_s(), o.ts_s());
                } else {
                    session.query_single_page(st, (), paging_state()).await.map_err(|e| classify("query_single_page", e))?;
                    asked = format!("Q/{}/{}/{}/{}/{}/{}/0/-", hex_bytes(text.as_bytes()), o.cons_s(), o.serial_s(), o.ts_s(), page_s, paging_s);
                }
            }
            2 | 3 | 4 => {
                // prepared statements: EXECUTE
                let use_select = kind != 4;
                let mut p = if use_select { prep_sel.clone() } else { prep_ins.clone() };
                if let Some(c) = o.cons {
                    p.set_consistency(c.0);
                }
                if let Some(sc) = o.serial {
                    p.set_serial_consistency(sc);
                }
                p.set_timestamp(o.ts);
                if let Some(pg) = o.page {
                    p.set_page_size(pg);
                }
                let cached = r.bool();
                p.set_use_cached_result_metadata(cached);
                let has_cols = use_select;
                let skip = has_cols && (cached || ext);
                let mid_s = if !ext {
                    "N".to_string()
                } else if skip {
                    hex_bytes(if use_select { &sel_mid } else { &ins_mid })
                } else {
                    "-".to_string()
                };
                let (a, b) = (r.u64() as i32, i as i32 - 5);
                let word = *r.pick(&["", "x", "żółw", "some longer text value"]);
                let (id, cells) = if use_select {
                    (&sel_id, format!("{},{}", int_cell(a), int_cell(b)))
                } else {
                    (&ins_id, format!("{},{},{}", int_cell(a), int_cell(b), text_cell(word)))
                };
                let unpaged = kind == 2 || (kind == 4 && r.bool());
                if unpaged {
                    if use_select {
                        session.execute_unpaged(&p, (a, b)).await.map_err(|e| classify("execute_unpaged", e))?;
                    } else {
                        session.execute_unpaged(&p, (a, b, word)).await.map_err(|e| classify("execute_unpaged", e))?;
                    }
                    asked = format!("E/2/{}/{}/{}/{}/{}/-/N/{}/{}", hex_bytes(id), mid_s, o.cons_s(), o.serial_s(), o.ts_s(), skip as u8, cells);
                } else {
                    if use_select {
                        session.execute_single_page(&p, (a, b), paging_state()).await.map_err(|e| classify("execute_single_page", e))?;
                    } else {
                        session.execute_single_page(&p, (a, b, word), paging_state()).await.map_err(|e| classify("execute_single_page", e))?;
                    }
                    asked = format!(
                        "E/2/{}/{}/{}/{}/{}/{}/{}/{}/{}",
                        hex_bytes(id), mid_s, o.cons_s(), o.serial_s(), o.ts_s(), page_s, paging_s, skip as u8, cells
                    );
                }
            }
            _ => {
                // BATCH: unprepared statements without values and the prepared INSERT with values
                let (bt, bts) = *r.pick(&[(BatchType::Logged, "0"), (BatchType::Unlogged, "1"), (BatchType::Counter, "2")]);
                let mut batch = Batch::new(bt);
                if let Some(c) = o.cons {
                    batch.set_consistency(c.0);
                }
                if let Some(sc) = o.serial {
                    batch.set_serial_consistency(sc);
                }
                batch.set_timestamp(o.ts);
                let t1 = format!("INSERT INTO ks.t (pk, ck, v) VALUES ({}, 0, 'b')", i);
                let (a, b) = (r.u64() as i32, r.u64() as i32);
                let word = *r.pick(&["", "w", "batch text"]);
                let ins_cells = format!("{},{},{}", int_cell(a), int_cell(b), text_cell(word));
                if kind == 5 {
                    batch.append_statement(Statement::new(t1.clone()));
                    batch.append_statement(prep_ins.clone());
                    session.batch(&batch, ((), (a, b, word))).await.map_err(|e| classify("batch", e))?;
                    asked = format!(
                        "B/c/{}/{}/{}/{}/q{},p{}/-;{}",
                        bts, o.cons_s(), o.serial_s(), o.ts_s(), hex_bytes(t1.as_bytes()), hex_bytes(&ins_id), ins_cells
                    );
                } else {
                    batch.append_statement(prep_ins.clone());
                    batch.append_statement(prep_ins.clone());
                    batch.append_statement(Statement::new(t1.clone()));
                    session.batch(&batch, ((a, b, word), (b, a, "second"), ())).await.map_err(|e| classify("batch", e))?;
                    asked = format!(
                        "B/c/{}/{}/{}/{}/p{},p{},q{}/{};{},{},{};-",
                        bts, o.cons_s(), o.serial_s(), o.ts_s(), hex_bytes(&ins_id), hex_bytes(&ins_id), hex_bytes(t1.as_bytes()),
                        ins_cells, int_cell(b), int_cell(a), text_cell("second")
                    );
                }
            }
        }
        let frames = user_frames(&cluster, &ids, ext);
        if frames.len() == 1 {
            items.push(format!("{}:{}", asked, hex_bytes(&frames[0])));
        } else if frames.is_empty() {
            // one call must put exactly one request frame on the wire: reported, judged by the driver
            items.push(format!("{}#0:-", asked));
        } else {
            for f in &frames {
                items.push(format!("{}#{}:{}", asked, frames.len(), hex_bytes(f)));
            }
        }
    }
    cluster.shutdown();
    drop(session);
    Ok(format!("e2e {} {}", ext as u8, items.join(" ")))
}
