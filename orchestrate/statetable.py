#!/usr/bin/env python3
"""Prints the markdown table of the final state per property (DESIGN.md §12.7) from
evidence/Cxx.json (quick, seed 1), work/evidence-thorough-Cxx.json (last thorough run, if kept),
pins/Cxx.v and known_findings.json."""
import json, os, re
R = "/verif"
kf = json.load(open(f"{R}/known_findings.json"))["findings"]
print("| property | theorems (pinned) | pinned Examples | quick: cases compared / wall | thorough: cases compared / wall | open findings | repaired findings |")
print("|---|---|---|---|---|---|---|")
for i in range(1, 21):
    p = f"C{i:02d}"
    pin = open(f"{R}/pins/{p}.v").read()
    nthm = len(re.findall(r"^Print Assumptions", pin, re.M))
    nchk = len(re.findall(r"^Check ", pin, re.M))
    q = json.load(open(f"{R}/evidence/{p}.json"))
    tf = f"{R}/work/evidence-thorough-{p}.json"
    t = json.load(open(tf)) if os.path.exists(tf) else None
    def cell(e):
        if not e:
            return "-"
        c = e["coverage"]
        return f"{c.get('evaluations', c.get('traces_validated_against_impl', '?')):,} / {e['wall_s']:.0f} s".replace(",", " ")
    op = ", ".join(f["id"] for f in kf if f["property"] == p and f["status"] == "open") or "-"
    fx = ", ".join(f["id"] for f in kf if f["property"] == p and f["status"] == "fixed") or "-"
    print(f"| {p} | {nthm} | {nchk - nthm} | {cell(q)} | {cell(t)} | {op} | {fx} |")
