#!/usr/bin/env python3
"""Writes SEED_TASK4.md (fourth-wave seeding task: ONE more change, different in kind from the
earlier deliveries, and compiling with --cfg scylla_verif) into each scratch worktree /tmp/seed-cXX."""
import json, os, sys
props = {json.loads(l)['id']: json.loads(l) for l in open('/verif/properties.jsonl')}
for pid, p in props.items():
    if len(sys.argv) > 1 and pid not in sys.argv[1:]:
        continue
    wt = f"/tmp/seed-{pid.lower()}"
    if not os.path.isdir(wt):
        print("missing", wt); continue
    prev = sorted(x for x in os.listdir(f"{wt}/out"))
    done = [x for x in prev if os.path.exists(f"{wt}/out/{x}/meta.json")]
    k = str(max(int(x) for x in done) + 1)
    txt = f"""You are helping test a verification tool by writing a realistic *bug-introducing change* to a Rust library. You work ONLY inside the git worktree {wt} (a checkout of scylladb/scylla-rust-driver, an async CQL driver for ScyllaDB/Cassandra; it builds offline; there is NO network). Do not read or touch /verif or /repo. Always use your own cargo target dir and offline mode: `export CARGO_TARGET_DIR={wt}/target CARGO_NET_OFFLINE=true`, and at most 4 build jobs (`-j4`) — the machine is shared. Code guarded by `#[cfg(scylla_verif)]` (modules named verif_hooks) is test instrumentation: ignore it, never edit it, and do not rename or remove items it mentions (fields, functions, enum variants used inside cfg(scylla_verif) blocks) — the instrumented build must still compile: check with `RUSTFLAGS="--cfg scylla_verif" CARGO_TARGET_DIR={wt}/target-v cargo build --offline -j4 -p <crate>`.

The property under test (a semantic property the library should always satisfy):

TITLE: {p['title']}
STATEMENT: {p['statement']}
QUANTIFIED OVER: {p['quantifier']['text']}
WHERE THE CODE IS: {', '.join(p['anchors']['files'])}

Earlier agents already delivered changes under {wt}/out/{', '.join(done)}/ (read their meta.json summaries). Produce ONE MORE change, delivered under {wt}/out/{k}/, that is DIFFERENT IN KIND from those: a different function, and preferably a different sentence of the property or a different part of the quantifier (another input class, another schedule, another configuration). Requirements (a small patch against the worktree's HEAD; only non-test library code; no changes to existing tests; not inside cfg(scylla_verif) code):
 1. still compiles (`cargo build --offline -p <crate>`, also with `--cfg scylla_verif` as above) and the existing unit tests of the touched crate(s) still pass (`cargo test --offline -p <crate> --lib` — for the `scylla` crate use `cargo test --offline -p scylla --lib -- --skip caching_session --skip integration` style filters if some tests need a live cluster; tests that already fail on the unmodified HEAD do not count);
 2. breaks the property above (state precisely which sentence of it);
 3. is SUBTLE: it needs something specific to manifest — a particular interleaving, a crash/fault at a particular point, a multi-step sequence of operations, an unusual input/boundary, or two cooperating edits that each look fine alone — NOT something ordinary use or the existing tests expose at once. Make it look like a plausible refactoring / optimisation / "fix" a developer might really commit.
Also write a demonstration: a small Rust test (a new #[cfg(test)] module appended to a source file when crate-private items are needed, otherwise a new file under the crate's tests/ directory) that FAILS with the change applied and PASSES on the unmodified HEAD, and runs offline with no database. Verify both directions yourself.

Deliver under {wt}/out/{k}/: `patch.diff` (`git diff` of the library change only, applicable with `git apply` on HEAD), `demo.diff` (the diff adding the demonstration only, applicable on HEAD independently of patch.diff), `meta.json` {{"property":"{pid}","summary":…,"breaks_sentence":…,"needs_to_manifest":…,"files":[…],"existing_tests_cmd":"cargo test --offline …","demo_cmd":"cargo test --offline … <filter>","demo_fails_with_patch":true,"demo_passes_without_patch":true}}. Leave the worktree's tracked files back at HEAD when done (git status clean apart from out/, target/, target-v/, SEED_TASK*.md). HARD TIME LIMIT: deliver within 30 minutes of starting (a first cargo build takes about 3-4 minutes; choose a change you can demonstrate quickly, and prefer one whose demonstration needs no new test infrastructure). Final message: at most 8 lines summarising the change."""
    open(f"{wt}/SEED_TASK4.md", "w").write(txt)
    print(pid, "->", f"{wt}/out/{k}")
