#!/bin/bash
# usage: seedverify.sh <worktree> <outdir k> <cargo test args for existing tests> <cargo test args for the demo>
# Confirms: patch compiles, existing tests pass with it, demo fails with it, demo passes without it.
# Leaves the worktree clean. Prints a JSON line summary.
WT=$1; OUT=$2; EXISTING=$3; DEMO=$4
export CARGO_TARGET_DIR=$WT/target CARGO_NET_OFFLINE=true
cd "$WT" || exit 2
git checkout -q -- . 2>/dev/null
r() { timeout 3000 cargo test --offline -j6 $1 >"$OUT/$2.log" 2>&1; echo $?; }
# 1. HEAD + demo : demo must pass
git apply "$OUT/demo.diff" || { echo '{"error":"demo.diff does not apply"}'; exit 1; }
demo_clean=$(r "$DEMO" demo_without_patch)
# 2. patch + demo : demo must fail
git apply "$OUT/patch.diff" || { echo '{"error":"patch.diff does not apply"}'; git checkout -q -- .; exit 1; }
demo_patched=$(r "$DEMO" demo_with_patch)
# 3. patch only : existing tests pass
git checkout -q -- . ; git clean -fdq -e out -e target
git apply "$OUT/patch.diff"
existing=$(r "$EXISTING" existing_with_patch)
git checkout -q -- . ; git clean -fdq -e out -e target
echo "{\"demo_passes_without_patch\": $([ $demo_clean = 0 ] && echo true || echo false), \"demo_fails_with_patch\": $([ $demo_patched != 0 ] && echo true || echo false), \"existing_tests_pass_with_patch\": $([ $existing = 0 ] && echo true || echo false)}"
