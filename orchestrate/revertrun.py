#!/usr/bin/env python3
"""Integrator tool: for each defect repaired by a `fix:` commit, re-introduce it (reverse patch of
that commit on a scratch worktree of /repo's HEAD) and run the owning property's check against it.
Records the outcome under /verif/seeded/revert-<Fid>/ (patch.diff = the reverse patch; the
demonstration is the replay file the check wrote: `./check Cxx --replay replay.json` fails with the
patch and passes without it).  /repo is never touched.

usage: revertrun.py [Fid ...]
"""
import json
import os
import re
import shutil
import subprocess
import sys

WT = "/tmp/revert-wt"
known = json.load(open("/verif/known_findings.json"))["findings"]
want = set(sys.argv[1:])


def sh(cmd, cwd=WT, env=None, timeout=3600):
    try:
        p = subprocess.run(cmd, shell=True, cwd=cwd, env=env or dict(os.environ), stdout=subprocess.PIPE,
                           stderr=subprocess.STDOUT, text=True, errors="replace", timeout=timeout)
        return p.returncode, p.stdout
    except subprocess.TimeoutExpired as ex:
        out = ex.stdout or ""
        if isinstance(out, bytes):
            out = out.decode(errors="replace")
        subprocess.run("pkill -f 'VERIF_REPO=/tmp/revert-wt' ; pkill -f 'build/cargo-[0-9a-f]*/debug'", shell=True)
        return 124, out + "\nTIMEOUT (the check did not finish within the limit)"


if not os.path.isdir(WT):
    rc, o = sh(f"git -C /repo worktree add -q {WT} HEAD", cwd="/")
    assert rc == 0, o
sh("git reset -q --hard HEAD; git checkout -q --detach; git reset -q --hard $(git -C /repo rev-parse HEAD); git clean -fdq")

for f in known:
    if f.get("status") != "fixed" or (want and f["id"] not in want):
        continue
    fid, pid, commit = f["id"], f["property"], f["commit"]
    sh("git revert --quit 2>/dev/null; git reset -q --hard HEAD ; git clean -fdq")
    def rev(c):
        # a real `git revert` (3-way) copes with later unrelated edits near the hunk
        rc, o = sh(f"git -c user.name=x -c user.email=x@x revert --no-commit {c}")
        if rc != 0:
            sh("git revert --abort; git reset -q --hard HEAD")
        return rc, o
    rc, o = rev(commit)
    composite = [commit]
    if rc != 0:
        # later fix: commits touching the same files have to be reverted first (newest first)
        sh("git revert --quit 2>/dev/null; git reset -q --hard HEAD ; git clean -fdq")
        rc0, files = sh(f"git -C /repo show {commit} --format= --name-only")
        files = set(files.split())
        rc0, later = sh(f"git -C /repo log --format=%h {commit}..HEAD --grep='^fix:' -- " + " ".join(files))
        composite = later.split() + [commit]
        ok = True
        for c in composite:
            rc, o = sh(f"git -c user.name=x -c user.email=x@x revert --no-commit {c}")
            if rc != 0:
                ok = False
                break
        if not ok:
            sh("git revert --abort; git reset -q --hard HEAD")
            print(f"{fid}: revert of {commit} does not apply even as composite {composite}: {o[-300:]}", flush=True)
            continue
    sh("git reset -q")        # keep the reverted tree as working-tree changes only
    rc, rdiff = sh("git diff")
    chk = {}
    for tier in ("quick", "thorough"):
        rc, o = sh(f"VERIF_REPO={WT} ./check {pid} --tier {tier}", cwd="/verif")
        lines = [l for l in o.splitlines() if l.startswith(("VIOLATION", pid + ":", "KNOWN-FINDING"))]
        chk[tier] = {"exit": rc, "lines": [l[:300] for l in lines[-4:]]}
        m0 = re.search(r"tie_cases=(\d+)", o)
        chk[tier]["tie_cases"] = int(m0.group(1)) if m0 else 0
        if rc != 0 and ("problem[harness-build]" in o or chk[tier]["tie_cases"] == 0):
            chk[tier]["not_judged"] = "harness did not build / no tie case ran: NOT a detection"
            break
        if rc != 0:
            m = re.search(r"replay=(\S+)", o)
            dst = f"/verif/seeded/revert-{fid}"
            os.makedirs(dst, exist_ok=True)
            if m and os.path.exists(m.group(1)):
                shutil.copy(m.group(1), f"{dst}/replay.json")
                rp = json.load(open(m.group(1)))
                chk[tier]["replay_kind"] = rp.get("kind")
                chk[tier]["first"] = list(zip(rp.get("observed", [])[:2], rp.get("verdicts", [])[:2]))
            break
    dst = f"/verif/seeded/revert-{fid}"
    os.makedirs(dst, exist_ok=True)
    open(f"{dst}/patch.diff", "w").write(rdiff)
    caught = any(v["exit"] != 0 and "not_judged" not in v for v in chk.values())
    json.dump({"property": pid, "id": f"revert-{fid}", "reverts_fix_commit": commit, "reverted_commits": composite,
               "summary": f["what"], "origin": "reverse patch of the fix: commit (the original defect)",
               "needs_to_manifest": "see summary: the specific input/history of the original finding",
               "demonstration": f"./check {pid} --replay seeded/revert-{fid}/replay.json (fails with patch.diff applied to /repo, passes without)",
               "ran": f"VERIF_REPO=<worktree of /repo HEAD with patch.diff applied> ./check {pid} (orchestrate/revertrun.py)",
               "check_result": chk, "caught": caught}, open(f"{dst}/meta.json", "w"), indent=1)
    print(f"revert-{fid} ({pid}, {commit}): caught={caught} {[(t, v['exit'], v['lines'][:1]) for t, v in chk.items()]}", flush=True)
sh("git revert --quit 2>/dev/null; git reset -q --hard HEAD ; git clean -fdq")
