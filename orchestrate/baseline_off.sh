#!/bin/sh
# Runs the repository's pinned suite with the verification guard OFF (the BASELINE command:
# cargo nextest, one process per test) and compares the passing set with
# /root/.vp/BASELINE.json (stable_pass).  Exit 0 iff every stable test still passes.
cd /repo || exit 2
export CARGO_NET_OFFLINE=true
unset RUSTFLAGS CARGO_ENCODED_RUSTFLAGS CARGO_BUILD_RUSTFLAGS
OUT=/verif/work/baseline_off.log
mkdir -p /verif/work
rm -f /repo/target/nextest/pb/junit.xml /repo/target/nextest/default/junit.xml
if [ -f /w/lib/nextest.toml ]; then
  timeout 10000 cargo nextest run --workspace --no-fail-fast --tool-config-file pb:/w/lib/nextest.toml --profile pb --test-threads 8 --offline >"$OUT" 2>&1
  JUNIT=/repo/target/nextest/pb/junit.xml
else
  printf '[profile.default.junit]\npath = "junit.xml"\n' > /verif/work/nextest-junit.toml
  timeout 10000 cargo nextest run --workspace --no-fail-fast --config-file /verif/work/nextest-junit.toml --test-threads 8 --offline >"$OUT" 2>&1
  JUNIT=/repo/target/nextest/default/junit.xml
fi
python3 - "$JUNIT" <<'PY'
import json, sys
import xml.etree.ElementTree as ET
base = json.load(open("/root/.vp/BASELINE.json"))["stable_pass"]
passed = set()
for tc in ET.parse(sys.argv[1]).getroot().iter("testcase"):
    if tc.find("failure") is None and tc.find("error") is None:
        passed.add(f"{tc.get('classname')}::{tc.get('name')}")
missing = [b for b in base if b not in passed]
print(f"baseline stable_pass={len(base)} passing_now={len(base)-len(missing)} missing={len(missing)}")
for m in missing[:40]:
    print("  NOT PASSING:", m)
sys.exit(1 if missing else 0)
PY
