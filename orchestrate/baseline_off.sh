#!/bin/sh
# Runs the repository's pinned suite with the verification guard OFF (the BASELINE command:
# cargo nextest, one process per test) and compares the passing set with
# /root/.vp/BASELINE.json (stable_pass).  Exit 0 iff every stable test still passes.
cd /repo || exit 2
export CARGO_NET_OFFLINE=true
unset RUSTFLAGS
OUT=/verif/work/baseline_off.log
mkdir -p /verif/work
if [ -f /w/lib/nextest.toml ]; then CFG="--tool-config-file pb:/w/lib/nextest.toml --profile pb"; else CFG=""; fi
timeout 10000 cargo nextest run --workspace --no-fail-fast $CFG --test-threads 8 --offline >"$OUT" 2>&1
python3 - "$OUT" <<'PY'
import json, re, sys
log = open(sys.argv[1], errors="replace").read()
log = re.sub(r"\x1b\[[0-9;]*m", "", log)
base = json.load(open("/root/.vp/BASELINE.json"))["stable_pass"]
passed = set()
for m in re.finditer(r"^\s*PASS\s+\[[^\]]*\]\s+(?:\(\s*\d+/\d+\)\s+)?(\S+)\s+(\S+)", log, re.M):
    passed.add(m.group(1) + "::" + m.group(2))
def norm(t):       # BASELINE: crate::[binary::]test ; nextest: 'crate[::binary] test'
    return t
missing = [t for t in base if t not in passed and not any(p.replace("::", "::", 1) == t for p in ())]
# tolerate the two naming schemes: compare on the test path after the crate name too
if missing:
    tails = {p.split("::", 1)[1] if "::" in p else p for p in passed}
    missing = [t for t in missing if t.split("::", 1)[1] not in tails]
print(f"baseline stable_pass={len(base)} passing_now={len(base)-len(missing)} missing={len(missing)}")
for m in missing[:40]:
    print("  NOT PASSING:", m)
sys.exit(1 if missing else 0)
PY
