#!/bin/sh
# Runs the repository's pinned suite with the verification guard OFF and compares the passing set
# with /root/.vp/BASELINE.json (stable_pass).  Exit 0 iff every stable test still passes.
cd /repo || exit 2
export CARGO_NET_OFFLINE=true
unset RUSTFLAGS
OUT=/verif/work/baseline_off.log
mkdir -p /verif/work
timeout 7200 cargo test --workspace --no-fail-fast --offline -- --test-threads 8 >"$OUT" 2>&1
python3 - "$OUT" <<'PY'
import json, re, sys
log = open(sys.argv[1], errors="replace").read()
base = json.load(open("/root/.vp/BASELINE.json"))["stable_pass"]
passed = set(re.findall(r"^test (\S+) \.\.\. ok", log, re.M))
failed = set(re.findall(r"^test (\S+) \.\.\. FAILED", log, re.M))
missing = []
for t in base:
    name = t.split("::", 1)[1]
    if name not in passed:
        missing.append(t)
print(f"baseline stable_pass={len(base)} passed_now={len(base)-len(missing)} missing={len(missing)}")
for m in missing[:40]:
    print("  NOT PASSING:", m, "(FAILED)" if m.split('::',1)[1] in failed else "(not run)")
sys.exit(1 if missing else 0)
PY
