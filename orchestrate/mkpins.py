#!/usr/bin/env python3
"""Developer tool (NOT run by checks): regenerate pins/<Cxx>.v from the Theorem statements of
coq/Props/<Cxx>.v.  The pins are committed; a later weakening of a statement in Props/ then fails
the pin compilation in the proof stage.  usage: mkpins.py C11 'extra import lines'"""
import re, sys
pid = sys.argv[1]
src = open(f"/verif/coq/Props/{pid}.v").read()
hdr = re.findall(r"^(From .*?Require Import.*?\.|Require Import.*?\.|Open Scope.*?\.|Import .*?\.|Local Open Scope.*?\.)\s*$", src, re.M)
thms = re.findall(r"^Theorem\s+(\w+)\s*:\s*(.*?)\nProof\.", src, re.M | re.S)
out = [f"(* Statement pins for {pid}: compiled on every check run against the built .vo files. *)"]
out += hdr
out.append(f"From SV Require Import Props.{pid}.")
out.append("")
for n, st in thms:
    out.append(f"Check {n} :\n  {st.strip()}")
for n, _ in thms:
    out.append(f"Print Assumptions {n}.")
open(f"/verif/pins/{pid}.v", "w").write("\n".join(out) + "\n")
print(f"{pid}: {len(thms)} theorems pinned")
