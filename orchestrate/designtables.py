#!/usr/bin/env python3
"""Integrator tool: replaces the generated tables of DESIGN.md 12.6 (seedtable.py) and 12.7
(statetable.py) in place, and the theorem / seeded-entry totals of 12.7's sentences."""
import re, subprocess
R = "/verif"
s = open(f"{R}/DESIGN.md").read()
def table(cmd):
    return subprocess.run(["python3", f"{R}/orchestrate/{cmd}"], capture_output=True, text=True, check=True).stdout.strip("\n")
def repl(s, head, new):
    i = s.index(head)
    j = i
    lines = s[i:].split("\n")
    n = 0
    for l in lines:
        if not l.startswith("|"):
            break
        n += len(l) + 1
    return s[:i] + new + "\n" + s[i + n:]
s = repl(s, "| change | property | what it does | result of `./check` |", table("seedtable.py"))
s = repl(s, "| property | theorems (pinned) | pinned Examples | quick: cases compared / wall |", table("statetable.py"))
open(f"{R}/DESIGN.md", "w").write(s)
