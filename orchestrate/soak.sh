#!/bin/sh
# Integrator tool: run every check's quick tier with several seeds; log any non-zero exit.
cd /verif
for seed in "$@"; do
  for p in C01 C02 C03 C04 C05 C06 C07 C08 C09 C10 C11 C12 C13 C14 C15 C16 C17 C18 C19 C20; do
    out=$(VERIF_SEED=$seed timeout 2400 ./check $p 2>&1); rc=$?
    echo "seed=$seed $p rc=$rc $(echo "$out" | grep -E "^C[0-9]+:" | cut -c1-160)"
    [ $rc -ne 0 ] && echo "$out" | grep -E "^(VIOLATION|  (viol|diff|error|problem))" | cut -c1-500
  done
done
