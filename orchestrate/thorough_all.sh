#!/bin/sh
# Integrator tool: run every check's THOROUGH tier once (registered command), log result and wall time.
cd /verif
for p in ${@:-C01 C02 C03 C04 C05 C06 C07 C08 C09 C10 C11 C12 C13 C14 C15 C16 C17 C18 C19 C20}; do
  t0=$(date +%s)
  out=$(timeout 14000 ./check $p --tier thorough 2>&1); rc=$?
  t1=$(date +%s)
  echo "$p rc=$rc wall=$((t1-t0))s $(echo "$out" | grep -E "^C[0-9]+:" | cut -c1-170)"
  [ $rc -ne 0 ] && echo "$out" | grep -E "^(VIOLATION|  (viol|diff|error|problem))" | cut -c1-600
  cp evidence/$p.json work/evidence-thorough-$p.json 2>/dev/null
done
