"""Shared machinery of every check: proof stage, tie stage, verdict, evidence, replays.

A property's check script (checks/cXX.py) describes the property (targets, runner, tier sizes)
and calls run_check().  Nothing here is specific to one property.
"""
import hashlib
import json
import os
import re
import subprocess
import sys
import time
from concurrent.futures import ThreadPoolExecutor

ROOT = os.path.dirname(os.path.dirname(os.path.abspath(__file__)))
COQ = os.path.join(ROOT, "coq")
WORK = os.path.join(ROOT, "work")
CARGO_TARGET = os.environ.get("VERIF_CARGO_TARGET", os.path.join(ROOT, "build", "cargo"))
NPROC = 16
REPO = os.environ.get("VERIF_REPO", "/repo")

FORBIDDEN = re.compile(
    r"\b(Admitted|admit|Axiom|Axioms|Parameter|Parameters|Conjecture|Admit Obligations|"
    r"Unset Guard Checking|Unset Positivity Checking|Unset Universe Checking|bypass_check|"
    r"type-in-type|impredicative-set|native_compute)\b"
)
SECTION_ONLY = re.compile(r"^\s*(Variable|Variables|Hypothesis|Hypotheses|Context)\b")

TRUSTED_BASE_COMMON = [
    "Coq 8.16.1 kernel (coqc full .vo build; vm_compute used in Examples and finite sweeps; no native_compute)",
    "extraction: ExtrOcamlBasic + ExtrOcamlString only (bool/option/list/prod/unit/sumbool and ascii/string mapped to OCaml's; no Extract Constant; N/Z/positive/nat stay inductive)",
    "OCaml 4.13.1 compiler, ocaml/common/conv.ml and the property's driver.ml (text <-> extracted datatypes)",
    "Rust harness (/verif/harness), its seeded generators and canonicalisers; orchestrate/common.py",
    "rustc/cargo toolchain; hooks under --cfg scylla_verif are add-only pass-throughs",
    "the Gallina model is hand-written from the anchored source; the tie below is differential execution, not proof about Rust",
]


def clean_env(env=None):
    """The environment every child of a check runs in (cargo, runners, drivers, coqc)."""
    e = dict(os.environ)
    e.setdefault("CARGO_NET_OFFLINE", "true")
    # an ambient RUSTFLAGS would override harness/.cargo/config.toml and silently drop --cfg scylla_verif
    for var in ("RUSTFLAGS", "CARGO_ENCODED_RUSTFLAGS", "CARGO_BUILD_RUSTFLAGS", "CARGO_BUILD_TARGET_DIR"):
        e.pop(var, None)
    if not (env and "CARGO_TARGET_DIR" in env):
        e.pop("CARGO_TARGET_DIR", None)
    # developer knobs of the runners (scenario counts, parallelism, debug output) must not leak from the
    # caller's shell into a registered check; a check that needs one passes it through `env=` or sets
    # VERIF_DEV=1 (VERIF_C08_DRIVER is set by checks/c08.py itself)
    if e.get("VERIF_DEV", "0") in ("", "0"):
        for var in list(e):
            if re.match(r"^(E2E_|C\d\d_)", var) or var in ("VERIF_C08_ULIMIT_KB", "VERIF_C08_SMALL_STACK_KB"):
                e.pop(var)
    if env:
        e.update(env)
    return e


def sh(cmd, timeout=1800, cwd=ROOT, env=None, capture=True):
    e = clean_env(env)
    try:
        p = subprocess.run(cmd, shell=isinstance(cmd, str), cwd=cwd, env=e, timeout=timeout,
                           stdout=subprocess.PIPE if capture else None,
                           stderr=subprocess.STDOUT if capture else None, text=True, errors="replace")
        return p.returncode, p.stdout or ""
    except subprocess.TimeoutExpired as ex:
        out = ex.stdout or ""
        if isinstance(out, bytes):
            out = out.decode(errors="replace")
        return 124, out + "\nTIMEOUT"


# ------------------------------------------------------------------ proof stage

def coq_lint():
    """Forbidden constructs anywhere in the development; Variable/Hypothesis only inside Sections."""
    bad = []
    for base in (COQ, os.path.join(ROOT, "pins")):
        for dp, _, fns in os.walk(base):
            for fn in fns:
                if not fn.endswith(".v"):
                    continue
                path = os.path.join(dp, fn)
                depth = 0
                in_comment = 0
                for i, line in enumerate(open(path, errors="replace"), 1):
                    # strip comments (nesting aware, line granular is enough for our style)
                    code = ""
                    j = 0
                    while j < len(line):
                        if line.startswith("(*", j):
                            in_comment += 1
                            j += 2
                        elif line.startswith("*)", j) and in_comment:
                            in_comment -= 1
                            j += 2
                        else:
                            if not in_comment:
                                code += line[j]
                            j += 1
                    if re.match(r"^\s*Section\b", code):
                        depth += 1
                    elif re.match(r"^\s*End\b", code) and depth:
                        depth -= 1
                    if FORBIDDEN.search(code):
                        bad.append(f"{os.path.relpath(path, ROOT)}:{i}: {code.strip()}")
                    if SECTION_ONLY.match(code) and depth == 0:
                        bad.append(f"{os.path.relpath(path, ROOT)}:{i}: outside Section: {code.strip()}")
    return bad


def ensure_makefile():
    if not os.path.exists(os.path.join(COQ, "Makefile")) or \
            os.path.getmtime(os.path.join(COQ, "Makefile")) < max(
                os.path.getmtime(os.path.join(dp, f))
                for dp, _, fs in os.walk(COQ) for f in fs if f.endswith(".v")):
        sh("./mkproject.sh", cwd=COQ)


def coqchk_stage(pid, allow_axioms=()):
    """Independent re-check of the compiled property file and everything it depends on (thorough tier)."""
    t0 = time.time()
    rc, out = sh(f"coqchk -silent -o -Q . SV SV.Props.{pid}", cwd=COQ, timeout=3000)
    res = {"ran": True, "rc": rc, "wall_s": round(time.time() - t0, 1), "ok": rc == 0, "axioms": None}
    m = re.search(r"\* Axioms:(.*?)(?:\n\s*\n\* |\Z)", out, re.S)
    if m:
        ax = [a.strip() for a in m.group(1).strip().splitlines() if a.strip() and a.strip() != "<none>"]
        res["axioms"] = ax
        if [a for a in ax if a.split()[0] not in allow_axioms]:
            res["ok"] = False
    else:
        res["ok"] = False
    for key in ("type-in-type", "unsafe (co)fixpoints", "positivity is assumed"):
        mm = re.search(re.escape(key) + r":\s*(\S+)", out)
        if not mm or mm.group(1) != "<none>":
            res["ok"] = False
    if not res["ok"]:
        res["tail"] = out[-800:]
    return res


def proof_stage(pid, targets, allow_axioms=()):
    """Build the property's .vo files, compile the statement pins, check assumptions."""
    res = {"ok": True, "failures": [], "theorems": [], "assumptions": {}, "obligations": 0, "discharged": 0}
    ensure_makefile()
    t0 = time.time()
    rc, out = sh(f"make -j{NPROC} " + " ".join(targets), cwd=COQ, timeout=3000)
    res["make_s"] = round(time.time() - t0, 1)
    if rc != 0:
        res["ok"] = False
        res["failures"].append("coq build failed: " + out[-1500:])
    lint = coq_lint()
    if lint:
        res["ok"] = False
        res["failures"].append("forbidden constructs: " + "; ".join(lint[:10]))
    pin = os.path.join(ROOT, "pins", f"{pid}.v")
    src = open(pin).read()
    checks = re.findall(r"^Check\s+(\w+)\s*:", src, re.M)
    pa = re.findall(r"^Print Assumptions\s+(\w+)\s*\.", src, re.M)
    names = [n for n in checks if n in set(pa)]          # theorems; the other Checks pin Examples
    res["theorems"] = names
    res["pinned_examples"] = [n for n in checks if n not in set(pa)]
    res["obligations"] = len(names)
    if set(pa) - set(checks):
        res["ok"] = False
        res["failures"].append("pins: every Print Assumptions needs a Check of the same theorem")
    try:
        psrc = open(os.path.join(COQ, "Props", f"{pid}.v")).read()
        declared = set(re.findall(r"^Theorem\s+(\w+)\b", psrc, re.M))
        unpinned = sorted(declared - set(pa))
        if unpinned:
            res["ok"] = False
            res["failures"].append(f"theorems of Props/{pid}.v that are not pinned (regenerate with orchestrate/mkpins.py): {unpinned}")
    except OSError:
        pass
    rc2, out2 = sh(f"coqc -Q {COQ} SV -noglob {pin}", timeout=3000)
    for junk in ("vo", "vos", "vok", "glob"):
        try:
            os.remove(pin[:-1] + junk)
        except OSError:
            pass
    if rc2 != 0:
        res["ok"] = False
        res["failures"].append("statement pins do not check: " + out2[-1500:])
        return res
    # split assumption blocks in order
    blocks = re.split(r"^(?=Closed under the global context|Axioms:)", out2, flags=re.M)[1:]
    if len(blocks) != len(pa):
        res["ok"] = False
        res["failures"].append(f"expected {len(pa)} assumption reports, got {len(blocks)}")
        return res
    for name, blk in zip(pa, blocks):
        if blk.startswith("Closed under the global context"):
            res["assumptions"][name] = []
            res["discharged"] += 1
        else:
            axs = re.findall(r"^(\S+)\s*:", blk[len("Axioms:"):], re.M)
            res["assumptions"][name] = axs
            notallowed = [a for a in axs if a not in allow_axioms]
            if notallowed:
                res["ok"] = False
                res["failures"].append(f"{name} depends on axioms not in the allowlist: {notallowed}")
            else:
                res["discharged"] += 1
    return res


# ------------------------------------------------------------------ tie stage

def harness_dir():
    """/verif/harness builds against /repo.  For the integrator's mutation experiments
    VERIF_REPO=<worktree> builds a copy of the harness whose path dependencies point at that
    worktree (own target dir), so /repo itself stays untouched.  Registered checks never set it."""
    if REPO == "/repo":
        return os.path.join(ROOT, "harness"), CARGO_TARGET
    tag = hashlib.sha1(REPO.encode()).hexdigest()[:8]
    hdir = os.path.join(ROOT, "build", f"harness-{tag}")
    sh(f"mkdir -p {hdir} && rsync -a --delete --exclude target {ROOT}/harness/ {hdir}/")
    for fn in ("Cargo.toml", ".cargo/config.toml"):
        p = os.path.join(hdir, fn)
        t = open(p).read().replace('"/repo/', f'"{REPO}/').replace("/verif/build/cargo", f"{ROOT}/build/cargo-{tag}")
        open(p, "w").write(t)
    return hdir, os.path.join(ROOT, "build", f"cargo-{tag}")


def build_harness(bin_name):
    hdir, target = harness_dir()
    global CARGO_TARGET
    CARGO_TARGET = target
    env = {"CARGO_TARGET_DIR": CARGO_TARGET}
    t0 = time.time()
    rc, out = sh(f"cargo build --offline --bin {bin_name}", cwd=hdir, env=env, timeout=2400)
    if rc != 0 and "Cargo.lock" in out:
        sh(f"cp {REPO}/Cargo.lock Cargo.lock", cwd=hdir)
        rc, out = sh(f"cargo build --offline --bin {bin_name}", cwd=hdir, env=env, timeout=2400)
    return rc == 0, out[-3000:], round(time.time() - t0, 1), os.path.join(CARGO_TARGET, "debug", bin_name)


def build_driver(pid):
    rc, out = sh(f"./ocaml/build.sh {pid.lower()}", timeout=600)
    return rc == 0, out[-2000:]


def run_driver(pid, case_file, extra_args=""):
    """Run ocaml/<pid>/driver over the case file in NPROC parallel chunks; returns verdict lines."""
    lines = open(case_file, errors="replace").read().splitlines()
    if not lines:
        return [], []
    drv = os.path.join(ROOT, "ocaml", pid.lower(), "driver")
    k = min(NPROC, max(1, len(lines) // 50))
    chunks = [lines[i::k] for i in range(k)]

    def work(ch):
        try:
            p = subprocess.run(f"{drv} {extra_args}", shell=True, input="\n".join(ch) + "\n", env=clean_env(),
                               stdout=subprocess.PIPE, stderr=subprocess.PIPE, text=True, timeout=3000)
        except subprocess.TimeoutExpired:
            return ["error driver-timeout"] * len(ch)
        outl = p.stdout.splitlines()
        if len(outl) > len(ch):
            # a stray output line would shift every later verdict: trust none of this chunk
            return [f"error driver-output-misaligned ({len(outl)} lines for {len(ch)} cases)"] * len(ch)
        if len(outl) != len(ch):
            # fewer lines than cases: the driver died, or skipped a line (then later verdicts would
            # be attributed to the wrong cases): trust none of this chunk
            return [f"error driver-died-or-skipped rc={p.returncode} {len(outl)} lines for {len(ch)} cases {p.stderr[-200:]!r}"] * len(ch)
        return outl

    with ThreadPoolExecutor(k) as ex:
        outs = list(ex.map(work, chunks))
    verdicts = [None] * len(lines)
    for ci, ol in enumerate(outs):
        for j, v in enumerate(ol[:len(chunks[ci])]):
            verdicts[ci + j * k] = v
    return lines, verdicts


# ------------------------------------------------------------------ known findings, replays, evidence

def load_known():
    p = os.path.join(ROOT, "known_findings.json")
    if not os.path.exists(p):
        return []
    return json.load(open(p)).get("findings", [])


def finding_class(verdict):
    """A known-finding tag counts only directly after the verdict word: `viol class=<name> ...`.
    The driver must attach it only when the implementation's output is the known behaviour."""
    m = re.match(r"(?:viol|diff)\s+class=([\w.-]+)", verdict)
    return m.group(1) if m else None


def write_replay(pid, payload):
    os.makedirs(os.path.join(ROOT, "replays"), exist_ok=True)
    blob = json.dumps(payload, sort_keys=True, indent=1)
    h = hashlib.sha1(blob.encode()).hexdigest()[:10]
    path = os.path.join(ROOT, "replays", f"{pid}-{h}.json")
    open(path, "w").write(blob)
    return path


def write_evidence(pid, tier, seed, coverage, assumptions, wall, violations, level="proof"):
    if REPO != "/repo":      # mutation experiment against a scratch worktree: never touch the evidence
        return
    os.makedirs(os.path.join(ROOT, "evidence"), exist_ok=True)
    ev = {"property_id": pid, "tier": tier, "seed": seed, "level": level, "coverage": coverage,
          "assumptions": assumptions, "wall_s": round(wall, 1), "violations": violations}
    open(os.path.join(ROOT, "evidence", f"{pid}.json"), "w").write(json.dumps(ev, indent=1))


def case_kind(line):
    return line.split(" ", 1)[0] if line else "?"


# ------------------------------------------------------------------ the generic check

def run_check(spec, argv):
    """spec: dict with
         pid, coq_targets, allow_axioms, bin, sizes {quick:n, thorough:n}, search_n,
         nontrivial(line)->bool (optional), extra_runner_args (optional),
         trusted_base (list), assumptions (list), checker_cmd (optional),
         post(lines, verdicts) -> list of extra (case, verdict) problems (optional)
    """
    pid = spec["pid"]
    tier = os.environ.get("VERIF_TIER", "quick")
    replay = None
    i = 0
    while i < len(argv):
        if argv[i] == "--tier":
            tier = argv[i + 1]; i += 2
        elif argv[i] == "--replay":
            replay = argv[i + 1]; i += 2
        else:
            i += 1
    try:
        seed = int(os.environ.get("VERIF_SEED", "1"))
    except ValueError:
        seed = int.from_bytes(hashlib.sha256(os.environ["VERIF_SEED"].encode()).digest()[:8], "big")
    seed %= 2 ** 62       # the runners parse a u64 and do arithmetic on it
    replay_full = False
    if replay:
        rp0 = json.load(open(replay))
        if not [c for c in rp0.get("cases", []) if c.strip()]:
            # a replay without concrete cases (broken proof / floor / census / build problem):
            # reproduce it by re-running the whole check with the recorded seed and tier
            seed, tier, replay, replay_full = int(rp0.get("seed", seed)) % 2 ** 62, rp0.get("tier", tier), None, True
            # the per-property `post` functions look at sys.argv / the environment themselves
            while "--replay" in sys.argv:
                i_ = sys.argv.index("--replay")
                del sys.argv[i_:i_ + 2]
    # what the per-property code (checks/cxx.py: post, extra_coverage, spec inputs) reads
    os.environ["VERIF_SEED"] = str(seed)
    os.environ["VERIF_TIER"] = tier
    t0 = time.time()
    os.makedirs(WORK, exist_ok=True)
    problems = []     # (kind, detail) that break "shown to hold"
    known_lines = []

    # 1. proof stage
    pr = proof_stage(pid, spec["coq_targets"], spec.get("allow_axioms", ()))
    if not pr["ok"]:
        for f in pr["failures"]:
            problems.append(("proof", f))
    ck = {"ran": False}
    if tier == "thorough" and pr["ok"] and not replay:
        ck = coqchk_stage(pid, spec.get("allow_axioms", ()))
        if not ck["ok"]:
            problems.append(("coqchk", "independent re-check (coqchk -o) failed or reports axioms: " + str(ck)[:600]))
    okd, outd = build_driver(pid)
    if not okd:
        problems.append(("driver-build", outd))

    # 2. tie stage
    okh, outh, build_s, binpath = build_harness(spec["bin"])
    lines, verdicts = [], []
    run_tag = f"{pid}.{os.getpid()}"           # per-run work files: concurrent runs of one check must not share them
    cases_file = os.path.join(WORK, f"{run_tag}.cases")
    if not okh:
        problems.append(("harness-build", outh))
    elif okd:
        if replay:
            rp = json.load(open(replay))
            tmp = os.path.join(WORK, f"{run_tag}.replay.in")
            open(tmp, "w").write("\n".join(rp.get("cases", [])) + "\n")
            rc, out = sh(f"{binpath} --replay {tmp} --out {cases_file} --tier {tier}", timeout=3000)
        else:
            corpus = os.path.join(ROOT, "corpus", pid)
            n = spec["sizes"][tier]
            rc, out = sh(f"{binpath} --seed {seed} --n {n} --tier {tier} --out {cases_file} "
                         + spec.get("extra_runner_args", ""), timeout=spec.get("runner_timeout", 3000))
            if os.path.isdir(corpus) and rc == 0:
                for fn in sorted(os.listdir(corpus)):
                    tmpo = os.path.join(WORK, f"{run_tag}.corpus.out")
                    rc2, out2 = sh(f"{binpath} --replay {os.path.join(corpus, fn)} --out {tmpo} --tier {tier}", timeout=600)
                    if rc2 == 0:
                        open(cases_file, "a").write(open(tmpo).read())
                    else:
                        problems.append(("runner", f"corpus {fn}: " + out2[-500:]))
        if rc != 0:
            problems.append(("runner", f"implementation runner failed rc={rc}: " + out[-1500:]))
        else:
            lines, verdicts = run_driver(pid, cases_file)
            if replay and lines and all(re.match(r"^ok[ -_]?(not-?run|skip)", v or "") for v in verdicts):
                # a replay in which nothing was observed (environment) shows nothing either way
                problems.append(("runner", "replay: every case came back not-run / skipped (environment): nothing was observed"))
            floor = 1 if replay else spec.get("min_cases", {}).get(tier, max(1, min(20, spec["sizes"][tier] // 20)))
            if len(lines) < floor:
                problems.append(("runner", f"the runner produced {len(lines)} case lines, fewer than the floor {floor}: "
                                           "nothing (or too little) was compared with the implementation"))

    # 3. verdict
    known = [k for k in load_known() if k.get("property") == pid]
    open_classes = {k["class"]: k for k in known if k.get("status") == "open"}
    viols, diffs, errors = [], [], []
    for ln, v in zip(lines, verdicts):
        if v is None:
            errors.append((ln, "error no-verdict-from-driver"))
            continue
        if v.startswith("ok"):
            continue
        if v.startswith("viol"):
            cl = finding_class(v)
            if cl and cl in open_classes:
                known_lines.append((cl, ln, v))
            else:
                viols.append((ln, v))
        elif v.startswith("diff"):
            cl = finding_class(v)
            if cl and cl in open_classes:
                known_lines.append((cl, ln, v))
            else:
                diffs.append((ln, v))
        else:
            errors.append((ln, v))
    tie_diffs = len(diffs) + len(errors)
    if "post" in spec and lines and not replay:
        for kind, ln, v in spec["post"](lines, verdicts):
            # aggregate findings (floors, census, caps): not replayable as a case line
            (viols if kind == "viol" else diffs).append((ln, v, "post"))

    searched = 0
    proof_broken = any(k in ("proof", "coqchk") for k, _ in problems)
    if (tie_diffs or proof_broken) and not viols and okh and okd and not replay:
        # search: the model/implementation tie or a proof is broken; look for a concrete input on
        # which the property itself fails (the driver evaluates the property predicate on the
        # implementation's output whenever the acceptor rejects).
        mutation_run = REPO != "/repo"      # integrator's experiment: one short search round is enough
        for k in range(1 if mutation_run else spec.get("search_rounds", 3)):
            sf = os.path.join(WORK, f"{run_tag}.search{k}.cases")
            sn = spec["sizes"]["quick"] if mutation_run else spec.get("search_n", spec["sizes"]["thorough"])
            rc, out = sh(f"{binpath} --seed {(seed * 7919 + 104729 * (k + 1)) % 2 ** 62} --n {sn} "
                         f"--tier {'quick' if mutation_run else 'thorough'} --out {sf} " + spec.get("extra_runner_args", ""), timeout=3000)
            if rc != 0:
                break
            sl, sv = run_driver(pid, sf)
            searched += len(sl)
            for ln, v in zip(sl, sv):
                if v and v.startswith("viol"):
                    cl = finding_class(v)
                    if not (cl and cl in open_classes):
                        viols.append((ln, v))
            if viols:
                break

    seen_known = {}
    for cl, ln, v in known_lines:
        seen_known.setdefault(cl, (ln, v))
    for cl, (ln, v) in seen_known.items():
        print(f"KNOWN-FINDING: property={pid} {open_classes[cl].get('what', cl)} [e.g. {ln} -> {v}]")

    exit_code = 0
    nviol = 0
    if viols:
        viols.sort(key=lambda x: len(x[0]))
        path = write_replay(pid, {"property": pid, "kind": "failing-input", "seed": seed, "tier": tier,
                                  "cases": [v[0].split("|")[0].strip() for v in viols[:20] if len(v) == 2],
                                  "observed": [v[0] for v in viols[:20]],
                                  "verdicts": [v[1] for v in viols[:20]],
                                  "replay_cmd": f"./check {pid} --replay <this file>"})
        print(f"VIOLATION property={pid} replay={path}")
        nviol = len(viols)
        exit_code = 1
    elif diffs or errors or problems:
        broken = []
        if problems:
            broken += [f"{k}: {d[:400]}" for k, d in problems]
        if diffs or errors:
            broken.append(f"correspondence {pid}: model and implementation differ on {len(diffs) + len(errors)} cases")
        path = write_replay(pid, {"property": pid, "kind": "no-failing-input-found", "seed": seed, "tier": tier,
                                  "no_longer_checks": broken + [f"theorems pinned in pins/{pid}.v: {pr['theorems']}"],
                                  "cases": [d[0].split("|")[0].strip() for d in (diffs + errors)[:20] if len(d) == 2],
                                  "observed": [d[0] for d in (diffs + errors)[:20]],
                                  "verdicts": [d[1] for d in (diffs + errors)[:20]],
                                  "searched_cases": searched})
        print(f"VIOLATION property={pid} replay={path} no-failing-input-found")
        nviol = max(1, len(diffs) + len(errors))
        exit_code = 1

    if exit_code:
        # make a failing run diagnosable from its stdout alone
        for kind, items in (("viol", viols), ("diff", diffs), ("error", errors)):
            for it in items[:4]:
                print(f"  {kind}: {it[1][:300]}   <- case: {it[0][:300]}")
        for k, d in problems[:4]:
            print(f"  problem[{k}]: {d[:600]}")

    # evidence
    nontrivial = spec.get("nontrivial", lambda ln: True)
    distinct = len({ln.split("|")[0].strip() for ln in lines if nontrivial(ln)})   # distinct CASES, not case+output
    kinds = {}
    for ln in lines:
        kinds[case_kind(ln)] = kinds.get(case_kind(ln), 0) + 1
    samples = []
    seenk = set()
    for ln, v in zip(lines, verdicts):
        k = case_kind(ln)
        if k not in seenk:
            seenk.add(k)
            samples.append({"case_and_impl_output": ln if len(ln) <= 600 else ln[:600] + f" …[{len(ln)} chars]",
                            "verdict": (v or "")[:300]})
    if not samples:
        samples = [{"note": "no tie cases were run"}]
    cov = {
        "obligations": pr["obligations"], "discharged": pr["discharged"] if pr["ok"] else 0,
        "checker_cmd": spec.get("checker_cmd", f"make -C coq {' '.join(spec['coq_targets'])} && coqc -Q coq SV pins/{pid}.v (Check <thm> : <statement> + Print Assumptions per theorem)"),
        "trusted_base": TRUSTED_BASE_COMMON + spec.get("trusted_base", []),
        "theorems": pr["theorems"],
        "pinned_examples": pr.get("pinned_examples", []),
        "print_assumptions": pr["assumptions"],
        "evaluations": len(lines), "distinct_nontrivial": distinct,
        "rule": spec.get("rule", "cases generated from VERIF_SEED by the harness; distinct = distinct case lines"),
        "case_kinds": kinds,
        "traces_validated_against_impl": sum(1 for v in verdicts if v and v.startswith("ok")),
        "disagreements_checked": len(diffs) + len(errors) + len(viols) + len(known_lines),
        "known_finding_hits": len(known_lines),
        "searched_cases_after_break": searched,
        "samples": samples[:12],
        "harness_build_s": build_s, "coq_make_s": pr.get("make_s"),
        "coqchk": ck,
    }
    if "extra_coverage" in spec:
        cov.update(spec["extra_coverage"](lines, verdicts))
    if not replay and not replay_full:
        write_evidence(pid, tier, seed, cov, spec.get("assumptions", []), time.time() - t0, nviol)
    try:
        if os.path.exists(cases_file) and not replay and REPO == "/repo" and os.path.getsize(cases_file) < 300_000_000:
            os.replace(cases_file, os.path.join(WORK, f"{pid}.cases"))
        for fn in os.listdir(WORK):
            if fn.startswith(run_tag + "."):
                os.remove(os.path.join(WORK, fn))
    except OSError:
        pass
    print(f"{pid}: tier={tier} seed={seed} theorems={pr['discharged']}/{pr['obligations']} "
          f"tie_cases={len(lines)} diffs={len(diffs)} errors={len(errors)} viols={len(viols)} "
          f"known={len(known_lines)} wall={time.time() - t0:.1f}s -> exit {exit_code}")
    return exit_code
