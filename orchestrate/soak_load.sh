#!/bin/sh
# Integrator tool: soak under artificial CPU load (N busy loops).  usage: soak_load.sh N seed...
N=$1; shift
pids=""
i=0; while [ $i -lt $N ]; do (while :; do :; done) & pids="$pids $!"; i=$((i+1)); done
trap "kill $pids 2>/dev/null" EXIT INT TERM
/verif/orchestrate/soak.sh "$@"
kill $pids 2>/dev/null
