#!/usr/bin/env python3
"""Prints the prompt for an independent seeding sub-agent: only the property text + a worktree."""
import json, sys
pid, n = sys.argv[1], int(sys.argv[2]) if len(sys.argv) > 2 else 2
p = [json.loads(l) for l in open('/verif/properties.jsonl') if json.loads(l)['id'] == pid][0]
wt = f"/tmp/seed-{pid.lower()}"
print(f"""You are helping test a verification tool by writing realistic *bug-introducing changes* to a Rust library. You work ONLY inside the git worktree {wt} (a checkout of scylladb/scylla-rust-driver, an async CQL driver for ScyllaDB/Cassandra; it builds offline; there is NO network). Do not read or touch /verif or /repo. Always use your own cargo target dir and offline mode: `export CARGO_TARGET_DIR={wt}/target CARGO_NET_OFFLINE=true`, and at most 4 build jobs (`-j4`) — the machine is shared. Code guarded by `#[cfg(scylla_verif)]` (modules named verif_hooks) is test instrumentation: ignore it, never edit it.

The property under test (a semantic property the library should always satisfy):

TITLE: {p['title']}
STATEMENT: {p['statement']}
QUANTIFIED OVER: {p['quantifier']['text']}
WHERE THE CODE IS: {', '.join(p['anchors']['files'])}

Task: produce {n} different changes to the library source (each a separate small patch against the worktree's HEAD; only non-test library code; no changes to existing tests; not inside cfg(scylla_verif) code) such that each:
 1. still compiles (`cargo build --offline -p <crate>`) and the existing unit tests of the touched crate(s) still pass (`cargo test --offline -p <crate> --lib` — for the `scylla` crate use `cargo test --offline -p scylla --lib -- --skip caching_session --skip integration` style filters if some tests need a live cluster; tests that already fail on the unmodified HEAD do not count);
 2. breaks the property above (state precisely which sentence of it);
 3. is SUBTLE: it needs something specific to manifest — a particular interleaving, a crash/fault at a particular point, a multi-step sequence of operations, an unusual input/boundary, or two cooperating edits that each look fine alone — NOT something ordinary use or the existing tests expose at once. Make it look like a plausible refactoring / optimisation / "fix" a developer might really commit. Make the {n} changes different in kind and in different functions.
For each change also write a demonstration: a small Rust test (a new #[cfg(test)] module appended to a source file when crate-private items are needed, otherwise a new file under the crate's tests/ directory) that FAILS with the change applied and PASSES on the unmodified HEAD, and runs offline with no database. Verify both directions yourself.

Deliver under {wt}/out/<k>/ for k = 1..{n}: `patch.diff` (`git diff` of the library change only, applicable with `git apply` on HEAD), `demo.diff` (the diff adding the demonstration only, applicable on HEAD independently of patch.diff), `meta.json` {{"property":"{pid}","summary":…,"breaks_sentence":…,"needs_to_manifest":…,"files":[…],"existing_tests_cmd":"cargo test --offline …","demo_cmd":"cargo test --offline … <filter>","demo_fails_with_patch":true,"demo_passes_without_patch":true}}. Leave the worktree's tracked files back at HEAD when done. Final message: at most 10 lines summarising the changes.""")
