#!/usr/bin/env python3
"""Integrator tool: confirm seeded changes delivered by an independent sub-agent in a scratch
worktree and run the property's check against each.

usage: seedrun.py <PID> [k ...]     (worktree /tmp/seed-<pid>, deliveries under out/<k>/)

For each k: (1) HEAD+demo passes, patch+demo fails, patch alone passes the existing tests
(commands from the delivery's meta.json); (2) with the patch applied in the worktree,
`VERIF_REPO=<worktree> ./check PID` (quick, then thorough if quick misses it); (3) files are
copied to /verif/seeded/<PID>-<k>/ with a meta.json recording what was run and what the check
said.  The worktree is left clean.  /repo is never touched.
"""
import json
import os
import re
import shutil
import subprocess
import sys

CHECK_ONLY = "--check-only" in sys.argv       # keep the earlier confirmation (made on the base the change was written for)
if CHECK_ONLY:
    sys.argv.remove("--check-only")
pid = sys.argv[1].upper()
wt = f"/tmp/seed-{pid.lower()}"
ks = sys.argv[2:] or sorted(os.listdir(f"{wt}/out"))
env = dict(os.environ, CARGO_TARGET_DIR=f"{wt}/target", CARGO_NET_OFFLINE="true")


def sh(cmd, cwd=wt, timeout=5400, e=env):
    p = subprocess.run(cmd, shell=True, cwd=cwd, env=e, stdout=subprocess.PIPE, stderr=subprocess.STDOUT,
                       text=True, errors="replace", timeout=timeout)
    return p.returncode, p.stdout


def clean():
    sh("git reset -q --hard HEAD ; git clean -fdq -e out -e target -e target-v -e 'SEED_TASK*'")


# the harness at /verif HEAD needs the hooks of /repo HEAD: judge every change on /repo's HEAD
sh("git reset -q --hard HEAD; git clean -fdq -e out -e target -e target-v -e 'SEED_TASK*'; "
   "git checkout -q --detach $(git -C /repo rev-parse HEAD)")
print(f"worktree {wt} at", sh("git rev-parse --short HEAD")[1].strip(), flush=True)

for k in ks:
    out = f"{wt}/out/{k}"
    meta = json.load(open(f"{out}/meta.json"))
    ex_cmd = meta.get("existing_tests_cmd", "cargo test --offline -p scylla --lib")
    demo_cmd = meta.get("demo_cmd")
    def norm(c):
        c = re.sub(r"^\s*((?:[A-Z_]+=\S+\s+)+)", "", c or "")      # drop VAR=... prefixes (own env is used)
        c = re.sub(r"^cd \S+ && ", "", c)
        c = re.sub(r"\s+\(.*$", "", c, flags=re.S)                    # drop a trailing parenthetical remark
        return c.strip()
    ex_cmd, demo_cmd = norm(ex_cmd), norm(demo_cmd)
    for c in (ex_cmd, demo_cmd):
        assert c.startswith("cargo test"), c
    def with_jobs(c):
        return c if " -j" in c else c.replace("cargo test", "cargo test -j6", 1)
    res = {}
    clean()
    prev = {}
    if os.path.exists(f"/verif/seeded/{pid}-{k}/meta.json"):
        prev = json.load(open(f"/verif/seeded/{pid}-{k}/meta.json")).get("confirmed_by_integrator", {})
    if CHECK_ONLY and prev.get("demo_fails_with_patch") and prev.get("demo_passes_without_patch") and prev.get("existing_tests_pass_with_patch", True):
        res = {kk: prev[kk] for kk in ("demo_passes_without_patch", "demo_fails_with_patch", "existing_tests_pass_with_patch") if kk in prev}
        res["note"] = "confirmation from the first run (on the /repo commit the change was written against); this run only re-ran the check at /repo HEAD"
    adapted = f"/verif/seeded/{pid}-{k}/patch-with-hook-adapted.diff"
    if "note" in res and os.path.exists(adapted):
        # the change renames something a cfg(scylla_verif) hook names: the judged tree is the change
        # plus the hook lines adapted to it (nothing else), recorded next to patch.diff
        rc, o = sh(f"git apply {adapted} || git apply --3way {adapted}")
        res["hook_adapted"] = "checked with patch-with-hook-adapted.diff (patch.diff + the cfg(scylla_verif) hook lines adapted to the renamed item)"
        if rc != 0:
            print(f"{pid}-{k}: adapted patch does not apply on /repo HEAD: {o[-300:]}", flush=True)
            clean()
            continue
    elif "note" in res:
        rc, o = sh(f"git apply {out}/patch.diff || git apply --3way {out}/patch.diff")
        if rc != 0:
            print(f"{pid}-{k}: patch.diff does not apply on /repo HEAD: {o[-300:]}", flush=True)
            clean()
            continue
    else:
        rc, o = sh(f"git apply {out}/demo.diff || git apply --3way {out}/demo.diff")
        if rc != 0:
            print(f"{pid}-{k}: demo.diff does not apply on /repo HEAD: {o[-300:]}", flush=True)
            clean()
            continue
        rc, o = sh(with_jobs(demo_cmd))
        res["demo_passes_without_patch"] = rc == 0
        rc, o = sh(f"git apply {out}/patch.diff || git apply --3way {out}/patch.diff")
        if rc != 0:
            print(f"{pid}-{k}: patch.diff does not apply on /repo HEAD: {o[-300:]}", flush=True)
            clean()
            continue
        rc, o = sh(with_jobs(demo_cmd))
        res["demo_fails_with_patch"] = rc != 0
        clean()
        sh(f"git apply {out}/patch.diff || git apply --3way {out}/patch.diff")
        rc, o = sh(with_jobs(ex_cmd))
        res["existing_tests_pass_with_patch"] = rc == 0
        if rc != 0:
            res["existing_tests_tail"] = o[-1500:]
    # the check, against the patched worktree
    chk = {}
    for tier in ("quick", "thorough"):
        rc, o = sh(f"VERIF_REPO={wt} ./check {pid} --tier {tier}", cwd="/verif", e=dict(os.environ))
        lines = [l for l in o.splitlines() if l.startswith("VIOLATION") or l.startswith(pid + ":") or l.startswith("KNOWN-FINDING")]
        chk[tier] = {"exit": rc, "lines": lines[-6:]}
        m0 = re.search(r"tie_cases=(\d+)", o)
        chk[tier]["tie_cases"] = int(m0.group(1)) if m0 else 0
        if rc != 0 and ("problem[harness-build]" in o or chk[tier]["tie_cases"] == 0):
            chk[tier]["not_judged"] = "the harness did not build / no tie case ran against the patched tree: NOT a detection"
            chk[tier]["tail"] = o[-600:]
            break
        if rc != 0:
            m = re.search(r"replay=(\S+)", o)
            if m and os.path.exists(m.group(1)):
                rp = json.load(open(m.group(1)))
                chk[tier]["replay_kind"] = rp.get("kind")
                chk[tier]["replay_first_cases"] = rp.get("observed", rp.get("cases", []))[:3]
                chk[tier]["replay_first_verdicts"] = rp.get("verdicts", [])[:3]
            break
    clean()
    caught = any(v["exit"] != 0 and "not_judged" not in v for v in chk.values())
    dst = f"/verif/seeded/{pid}-{k}"
    os.makedirs(dst, exist_ok=True)
    history = ""
    if os.path.exists(f"{dst}/meta.json"):
        old = json.load(open(f"{dst}/meta.json"))
        history = old.get("history", "")
        if not old.get("caught") and caught:
            history = (history + "; " if history else "") + "MISSED by the check as first built (quick and thorough exit 0); caught after the check was strengthened"
        elif not old.get("caught") and not caught:
            history = (history + "; " if history else "") + "missed again on re-run"
    shutil.copy(f"{out}/patch.diff", dst)
    shutil.copy(f"{out}/demo.diff", dst)
    rec = {"property": pid, "id": f"{pid}-{k}", "summary": meta.get("summary"),
           "breaks_sentence": meta.get("breaks_sentence"), "needs_to_manifest": meta.get("needs_to_manifest"),
           "files": meta.get("files"),
           "origin": "independent sub-agent given only the property text and a scratch worktree of /repo",
           "confirmed_by_integrator": dict(res, existing_tests_cmd=ex_cmd, demo_cmd=demo_cmd,
                                           worktree=f"{wt} (removed afterwards)", tool="orchestrate/seedrun.py"),
           "check_result": chk, "caught": caught, "history": history}
    json.dump(rec, open(f"{dst}/meta.json", "w"), indent=1)
    print(f"{pid}-{k}: confirmed={res} caught={caught} "
          f"{[ (t, v['exit'], v['lines'][:1]) for t, v in chk.items()]}", flush=True)
