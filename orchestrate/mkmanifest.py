#!/usr/bin/env python3
"""Developer tool: regenerate MANIFEST.json from checks/manifest/*.json (one file per claimed
property) + checks/not_applicable.json.  Keeps the manifest valid at all times."""
import glob
import json
import os
import subprocess

root = os.path.dirname(os.path.dirname(os.path.abspath(__file__)))
ent = {}
for f in sorted(glob.glob(os.path.join(root, "checks", "manifest", "C*.json"))):
    ent[os.path.basename(f)[:-5]] = json.load(open(f))
na_reasons = json.load(open(os.path.join(root, "checks", "not_applicable.json")))
hooks = subprocess.run("git -C /repo log --format=%H --grep='^verif hook'", shell=True,
                       capture_output=True, text=True).stdout.split()
checks = []
for pid, e in sorted(ent.items()):
    checks.append({
        "property_id": pid,
        "quick_cmd": f"./check {pid} --tier quick",
        "thorough_cmd": f"./check {pid} --tier thorough",
        "evidence_file": f"/verif/evidence/{pid}.json",
        "replay_cmd_template": f"./check {pid} --replay {{path}}",
        "engine": e.get("engine", "pure"),
        "level_claimed": {"category": "proof", "text": e["text"],
                          "design_ref": e.get("design_ref", f"DESIGN.md section 7 {pid}")},
        "level_note": e["note"],
        "technique": e["technique"],
    })
props = [json.loads(l)["id"] for l in open(os.path.join(root, "properties.jsonl"))]
default_na = ("not yet claimed: the model, theorems and correspondence tie for this property are not "
              "built yet (see DESIGN.md build order); nothing is asserted about it")
na = [{"property_id": p, "reason": na_reasons.get(p, default_na)} for p in props if p not in ent]


def serves(kind):
    return [p for p, e in sorted(ent.items()) if kind in e.get("engine", "pure").split(" + ")]


man = {
    "version": 1,
    "setup_cmd": "./setup.sh",
    "hooks": {
        "guard": "--cfg scylla_verif",
        "enable": "RUSTFLAGS=\"--cfg scylla_verif\" (set in /verif/harness/.cargo/config.toml); hooks are "
                  "#[cfg(scylla_verif)] pub mod verif_hooks at the end of the files they touch",
        "baseline_off_cmd": "/verif/orchestrate/baseline_off.sh",
        "source_commits": hooks,
        "add_only": True,
    },
    "engines": [
        {"name": "pure", "path": "harness/src/bin", "serves_properties": serves("pure"),
         "kind_free_text": "seeded generators call the real functions (public or hooked); the extracted Coq model evaluates the same cases"},
        {"name": "sm", "path": "harness/src/bin", "serves_properties": serves("sm"),
         "kind_free_text": "operation sequences driven through a hooked state machine, every return value compared with the extracted model"},
        {"name": "e2e", "path": "harness/src/mocknode", "serves_properties": serves("e2e"),
         "kind_free_text": "real Session/Connection against a scripted CQL v4 mock node on loopback; recorded trace fed to the extracted acceptor"},
    ],
    "checks": checks,
    "not_applicable": na,
    "notes": ("Every check = proof stage (Coq .vo build of the property's theorems, statement pins, Print "
              "Assumptions allowlist, forbidden-construct lint) + tie stage (real code rebuilt from /repo with "
              "--cfg scylla_verif vs the extracted model on seeded cases) + verdict (search for a failing input "
              "when either breaks). See DESIGN.md."),
}
json.dump(man, open(os.path.join(root, "MANIFEST.json"), "w"), indent=1)
print("MANIFEST.json:", len(checks), "checks,", len(na), "not claimed")
