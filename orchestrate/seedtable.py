#!/usr/bin/env python3
"""Prints the markdown table of seeded changes (seeded/*/meta.json) for DESIGN.md §12.4."""
import glob, json, os
rows = []
for d in sorted(glob.glob("/verif/seeded/*/meta.json")):
    m = json.load(open(d))
    sid = m["id"]
    cr = m.get("check_result", {})
    if "exit" in cr:           # old C11 format
        tiers = {"quick": cr}
    else:
        tiers = cr
    how = "missed"
    for t in ("quick", "thorough"):
        v = tiers.get(t)
        if v and v.get("not_judged"):
            how = "NOT JUDGED (the hooked harness does not build against the patched tree: `./check` exits 1 `no-failing-input-found` on `problem[harness-build]`, which is not counted as a detection)"
            break
        if v and v.get("exit"):
            kind = v.get("replay_kind") or ("no-failing-input-found" if any("no-failing-input-found" in l for l in v.get("lines", [v.get("line", "")])) else "failing-input")
            how = f"caught ({t}; {kind})"
            break
    hist = m.get("history", "")
    summ = (m.get("summary") or "").replace("\n", " ").replace("|", "/")
    if len(summ) > 230:
        summ = summ[:227] + "…"
    rows.append(f"| `{sid}` | {m['property']} | {summ} | {how}{(' — ' + hist) if hist else ''} |")
print("| change | property | what it does | result of `./check` |")
print("|---|---|---|---|")
print("\n".join(rows))
